"""Numerical validation of the trusted mathematics (DESIGN.md 2.4 / 4):
  (1) every axiom instance the Theory generates for a battery of argument shapes is evaluated with mpmath (50 digits) on a grid of
      points and must be true;
  (2) the textbook differentiator is compared with sympy.diff and with central differences on the denotations of the families;
  (3) the denotation is compared with an independent sympy/mpmath evaluation.
Prints 'SELFTEST axioms=<instances x points checked> differentiator=<trees x points> failures=<n>'; exit 1 on any failure."""
import itertools
import os
import random
import sys

VERIF = os.path.dirname(os.path.dirname(os.path.abspath(__file__)))
sys.path.insert(0, VERIF)

import mpmath  # noqa: E402
import z3  # noqa: E402

from symreal import core as sx  # noqa: E402
import oracle as orc  # noqa: E402
import families as fam  # noqa: E402
from harness import routes as rt  # noqa: E402

mpmath.mp.dps = 50
TOL = mpmath.mpf(10) ** (-30)


def approx_bool(t, val):
    """tolerant evaluation of an axiom instance: equalities up to 1e-30 relative, inequalities may be off by the same margin"""
    k = t.decl().kind()
    if k == z3.Z3_OP_AND:
        return all(approx_bool(c, val) for c in t.children())
    if k == z3.Z3_OP_OR:
        return any(approx_bool(c, val) for c in t.children())
    if k == z3.Z3_OP_NOT:
        return not strict_bool(t.arg(0), val)
    if k == z3.Z3_OP_IMPLIES:
        try:
            if not strict_bool(t.arg(0), val):
                return True
        except orc.Undefined:
            return True
        return approx_bool(t.arg(1), val)
    if k in (z3.Z3_OP_EQ, z3.Z3_OP_LE, z3.Z3_OP_LT, z3.Z3_OP_GE, z3.Z3_OP_GT):
        a, b = orc.mp_term(t.arg(0), val), orc.mp_term(t.arg(1), val)
        s = TOL * (1 + abs(a) + abs(b))
        return {z3.Z3_OP_EQ: abs(a - b) <= s, z3.Z3_OP_LE: a <= b + s, z3.Z3_OP_LT: a < b + s, z3.Z3_OP_GE: a + s >= b, z3.Z3_OP_GT: a + s > b}[k]
    return orc.mp_bool(t, val)


def strict_bool(t, val):
    """antecedents: only count as true when clearly true (margin), so borderline points are skipped rather than mis-judged"""
    k = t.decl().kind()
    if k == z3.Z3_OP_AND:
        return all(strict_bool(c, val) for c in t.children())
    if k in (z3.Z3_OP_LE, z3.Z3_OP_LT, z3.Z3_OP_GE, z3.Z3_OP_GT, z3.Z3_OP_EQ, z3.Z3_OP_DISTINCT):
        a, b = orc.mp_term(t.arg(0), val), orc.mp_term(t.arg(1), val)
        m = mpmath.mpf(10) ** (-20)
        if k == z3.Z3_OP_EQ:
            return a == b
        if k == z3.Z3_OP_DISTINCT:
            return abs(a - b) > m
        return {z3.Z3_OP_LE: a <= b, z3.Z3_OP_LT: a < b - m, z3.Z3_OP_GE: a >= b, z3.Z3_OP_GT: a > b + m}[k]
    return orc.mp_bool(t, val)


def axiom_battery():
    """axiom instances for a battery of argument shapes (each shape in a fresh Theory, so the recursion stays small)"""
    a, b, c, d = z3.Reals("a b c d")
    out = []
    seen = set()

    def collect(f):
        T = sx.Theory()
        sx.TH = T
        f(T)
        for ax in T.axioms:
            k = ax.sexpr()
            if k not in seen:
                seen.add(k)
                out.append(ax)
    terms = [a, a * b, a / b, a * a * b, -a, a + b, 2 * a, 1 / a]
    for t in terms:
        collect(lambda T: T.ln(t))
        collect(lambda T: (T.sin(t), T.cos(t), T.sin(-t), T.cos(-t)))
        for n in (2, 3, 4, 6):
            collect(lambda T: T.root(n, t))
    for t in (a, a * b, a / b, 1 / a):
        for e in (b, b + c, -b, 2 * b, b - 1, z3.RealVal(2), z3.RealVal(-1), z3.RealVal(0), sx.Q(0.5), sx.Q(2.5)):
            collect(lambda T: T.pow(t, e))
    for n, m in itertools.product((2, 3, 4, 6), (2, 3)):
        collect(lambda T: T.root(n, T.root(m, a)))
        collect(lambda T: T.root(n, sx.ipow(a, m)))
    for e in (2 / b, (3 * b) / c, -2 / b, 2 * b * c, b / 2):
        collect(lambda T: T.pow(a, e))
    for t in (1 / (-a), b / (-a), (-1 * a) * b, -(a * b), (-a) / (-b)):
        collect(lambda T: (T.sin(z3.simplify(t)), T.cos(z3.simplify(t)), T.sin(t), T.cos(t)))
    collect(lambda T: T.pow(T.pow(a, b), c))
    collect(lambda T: T.ln(T.pow(a, b)))
    collect(lambda T: (T.pow(sx.Q(2), a), T.pow(sx.Q(0.5), a + b), T.pow(sx.Q(sx.E_FLOAT), a), T.ln(sx.Q(2)), T.ln(sx.Q(sx.E_FLOAT)), T.ln(sx.Q(10)),
                       T.root(3, sx.Q(-8)), T.root(2, sx.Q(2))))
    return out, ["a", "b", "c", "d"]


def check_axioms():
    axioms, names = axiom_battery()
    rng = random.Random(7)
    grid = [-3, -1, mpmath.mpf(-1) / 2, 0, mpmath.mpf(1) / 3, 1, 2, mpmath.mpf(5) / 2, 7]
    pts = [dict(zip(names, [mpmath.mpf(rng.choice(grid)) for _ in names])) for _ in range(25)]
    pts += [dict(zip(names, [mpmath.mpf(rng.uniform(-4, 4)) for _ in names])) for _ in range(25)]
    n, bad = 0, []
    for ax in axioms:
        for val in pts:
            try:
                ok = approx_bool(ax, val)
            except (orc.Undefined, ZeroDivisionError):
                continue
            except Exception as e:  # noqa
                bad.append((str(ax)[:200], f"{type(e).__name__}: {e}"))
                break
            n += 1
            if not ok:
                bad.append((str(ax)[:300], {k: mpmath.nstr(v, 8) for k, v in val.items()}))
                break
    return len(axioms), n, bad


def to_sympy(d, sym):
    import sympy as sp
    k = d[0]
    if k == "share":
        return to_sympy(d[2], sym)
    if k == "var":
        return sym[d[1]]
    if k == "const":
        return sp.Rational(str(d[1])) if not isinstance(d[1], list) else sym[d[1][1]]
    if k == "Add":
        return sp.Add(*[to_sympy(c, sym) for c in d[1:]])
    if k == "Multiply":
        return sp.Mul(*[to_sympy(c, sym) for c in d[1:]])
    if k == "Minus":
        return to_sympy(d[1], sym) - to_sympy(d[2], sym)
    if k == "Negation":
        return -to_sympy(d[1], sym)
    if k == "Divide":
        return to_sympy(d[1], sym) / to_sympy(d[2], sym)
    if k == "Reciprocal":
        return 1 / to_sympy(d[1], sym)
    if k == "Power":
        return sp.exp(to_sympy(d[2], sym) * sp.log(to_sympy(d[1], sym)))
    if k == "NthPower":
        return to_sympy(d[1], sym) ** int(d[2])
    if k == "NthRoot":
        return sp.real_root(to_sympy(d[1], sym), int(d[2]))
    if k == "Exponential":
        b = sp.E if len(d) == 2 else sp.Rational(str(d[2]))
        return sp.exp(to_sympy(d[1], sym) * sp.log(b))
    if k == "Logarithm":
        b = sp.E if len(d) == 2 else sp.Rational(str(d[2]))
        return sp.log(to_sympy(d[1], sym)) / sp.log(b)
    if k == "Sine":
        return sp.sin(to_sympy(d[1], sym))
    if k == "Cosine":
        return sp.cos(to_sympy(d[1], sym))
    raise KeyError(k)


def check_differentiator(limit=400):
    import sympy as sp
    trees = fam.f1(fam.V, "quick") + fam.f1(fam.A, "quick") + fam.f2_quick(6, 0)
    trees = [t for t in trees if not rt.syms_of(t)][:limit]
    rng = random.Random(11)
    n, bad, skipped = 0, [], 0
    for d in trees:
        vs = rt.variables_of(d)
        if not vs:
            continue
        sx.TH = sx.Theory()
        env = {v: z3.Real(v) for v in vs}
        ref, indom = orc.denote(rt.strip_share(d), env)
        x = vs[0]
        dref = orc.ddx(ref, env[x])
        sym = {v: sp.Symbol(v, real=True) for v in vs}
        try:
            se = to_sympy(d, sym)
            sde = sp.diff(se, sym[x])
        except Exception:  # noqa
            skipped += 1
            continue
        done = 0
        for _ in range(40):
            if done >= 3:
                break
            val = {v: mpmath.mpf(rng.choice([0.3, 0.7, 1.3, 1.9, 2.6, -0.4, -1.7, 3.1])) + mpmath.mpf(rng.random()) / 10 for v in vs}
            try:
                if not orc.mp_bool(indom, val):
                    continue
                a = orc.mp_term(ref, val)
                da = orc.mp_term(dref, val)
                b = mpmath.mpmathify(sp.N(se.subs({sym[v]: sp.Float(str(val[v]), 60) for v in vs}), 45))
                db = mpmath.mpmathify(sp.N(sde.subs({sym[v]: sp.Float(str(val[v]), 60) for v in vs}), 45))
            except Exception:  # noqa
                continue
            if mpmath.im(b) != 0 or mpmath.im(db) != 0:
                continue
            # central difference of the denotation itself (independent of sympy)
            h = mpmath.mpf(10) ** (-20)
            vp, vm = dict(val), dict(val)
            vp[x] += h
            vm[x] -= h
            try:
                fd = (orc.mp_term(ref, vp) - orc.mp_term(ref, vm)) / (2 * h)
            except Exception:  # noqa
                fd = da
            done += 1
            n += 1
            if not orc.close(a, b, rel=1e-25) or not orc.close(da, db, rel=1e-25) or not orc.close(da, fd, rel=1e-12):
                bad.append((d, {k: mpmath.nstr(v, 8) for k, v in val.items()}, mpmath.nstr(a, 12), mpmath.nstr(b, 12), mpmath.nstr(da, 12), mpmath.nstr(db, 12), mpmath.nstr(fd, 12)))
                break
    return n, bad, skipped


def main():
    orc.E_AS_EXACT[0] = True
    n_ax, n_evals, bad_ax = check_axioms()
    n_d, bad_d, skipped = check_differentiator()
    print(f"SELFTEST axiom_instances={n_ax} axiom_evaluations={n_evals} differentiator_points={n_d} skipped_trees={skipped} failures={len(bad_ax) + len(bad_d)}")
    for b in bad_ax[:10]:
        print("  AXIOM FALSE:", b)
    for b in bad_d[:10]:
        print("  ORACLE MISMATCH:", b)
    return 1 if (bad_ax or bad_d) else 0


if __name__ == "__main__":
    sys.exit(main())
