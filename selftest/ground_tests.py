"""Encoding validated against the implementation (Serval-style, DESIGN.md 2.6): the repository's own test-suite is run under the
engine in GROUND mode - every Constant lifted to an exact rational proxy, every elementary function an uninterpreted term with
its ground axiom instance, comparisons decided by z3 - and must pass.  Exit status = pytest's.  Prints 'GROUND-TESTS passed=<n>'."""
import os
import sys

VERIF = os.path.dirname(os.path.dirname(os.path.abspath(__file__)))
REPO = os.environ.get("SMOOTHMATH_REPO", "/repo")
sys.path.insert(0, VERIF)
sys.path.insert(0, os.path.join(REPO, "test_helpers"))
sys.path.insert(0, os.environ.get("SMOOTHMATH_SRC", os.path.join(REPO, "src")))

import smoothmath  # noqa: E402,F401
from symreal import core as sx  # noqa: E402

sx.inject()
eng = sx.Engine(10000)
sx.ENG = eng
eng.start_path([])       # a single path: with ground values every fork is decided (by simplification or by the solver)

import pytest  # noqa: E402


class Plugin:
    passed = 0

    def pytest_collection_modifyitems(self, items):
        for it in items:
            m = it.module
            if getattr(m, "float", None) is not sx.sym_float:
                m.float = sx.sym_float           # the tests' own isinstance(x, float) assertions accept the real-number proxy
                m.int = sx.sym_int

    def pytest_runtest_logreport(self, report):
        if report.when == "call" and report.passed:
            Plugin.passed += 1

    def pytest_runtest_setup(self, item):
        eng.start_path([])


if __name__ == "__main__":
    os.chdir(REPO)
    rc = pytest.main(["-q", "-p", "no:cacheprovider", "--no-header", os.path.join(REPO, "tests"), "--import-mode=importlib", "-o", "pythonpath=",
                      "--rootdir=" + REPO, "-c", "/dev/null"] + sys.argv[1:], plugins=[Plugin()])
    print(f"GROUND-TESTS passed={Plugin.passed} forks_decided_by_solver={eng.nq}")
    sys.exit(int(rc))
