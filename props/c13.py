"""C13 - the printed form echoes the object (DESIGN.md 6, C13)."""
import z3

import families as fam
from symreal import core as sx
from symreal import symhash
from harness.run import VC
from props import common
from props import c12

PROP = "C13"
LEVEL_TEXT = ("Symbolic execution of the real __repr__/__str__ code with numeric content (constant values, n, base, coordinates) as solver variables that "
              "print as opaque tokens: the printed text is evaluated back with the public names (and the tokens) in scope and compared with the original by "
              "the library's == - so constructor names, argument order and keyword spelling are checked for ALL parameter values, and every value-dependent "
              "branch of the printing code (e.g. a truthiness test that hides a zero coordinate) is a solver-checked fork. Pairs of objects are printed one "
              "after the other in the same process: equal printed text must imply equality (hash() is an uninterpreted function, so a hash-keyed memo is a "
              "fork on a hash collision; replay tries CPython's real numeric-hash collisions). The real float/int formatting is exercised by one concrete "
              "replay per obligation on the un-instrumented interpreter, and by 12 assignments of number spellings that are easy to print wrongly (trailing zeros, exponent "
              "notation, 17-digit mantissas, the smallest subnormal) tried once per job and on every failing round trip.")
BOUNDS = {"quick": {"objects": "the C12 pair list (26 base objects x one-difference variants, all 15 constructors, points, derivative objects) with symbolic parameters",
                    "outside": "float formatting beyond Python's own repr round-trip guarantee; full injectivity of printing for trees larger than the list "
                    "(printing is a structural recursion; node-level distinctness is what is checked)"}}
BOUNDS["thorough"] = BOUNDS["quick"]
ASSUMPTIONS = ["repr(float)/repr(int) round-trip through eval (Python's guarantee)"]
OPTS = {"quick": {"timeout_ms": 10000}, "thorough": {"timeout_ms": 30000}}
COLLISIONS = [[-1, -2], [0, 2305843009213693951], [1, 2305843009213693952], [-2, -1]]
# number spellings whose printed form is easy to get wrong (trailing zeros, exponent notation, long mantissas): tried directly on the real interpreter
_POOL = [10.0, 20.0, 100.0, 1500.0, 1e+20, 1e-07, 0.1, 1e+16, 123456789012.0, 2.5e-05, 3.0, 1e+22, 0.30000000000000004, 5e-324]
FORMATS = [[10.0], [1e+20], [1500.0], [1e-07], [0.1], [10.0, 100.0], [1e+22, 2.5e-05], [123456789012.0, 20.0], [100.0, 10.0, 1e+16], [0.30000000000000004, 1e+20, 3.0],
           [10.0, 20.0, 100.0, 1500.0], [1e-07, 5e-324, 1e+16, 0.1]]


def jobs(tier, seed):
    js = []
    for j in c12.jobs(tier, seed):
        if j.get("mode") != "pair" or j.get("twin") or j.get("c"):
            continue
        js.append({"mode": "reprpair", "a": j["a"], "b": j["b"], "int_inputs": j.get("int_inputs", []), "tag": j.get("tag")})
    X = fam.X
    S = c12.SYM
    extra = [
        (["expr", ["Minus", X, ["const", S("c1")]]], ["expr", ["Minus", X, ["const", S("c2")]]]),
        (["expr", ["Divide", ["const", S("c1")], X]], ["expr", ["Divide", ["const", S("c2")], X]]),
        (["expr", ["Power", X, ["const", S("c1")]]], ["expr", ["Power", X, ["const", S("c2")]]]),
        (["expr", ["Add", X, ["const", S("c1")]]], ["expr", ["Add", X, ["const", S("c2")]]]),
        (["expr", ["Multiply", ["const", S("c1")], ["Sine", X]]], ["expr", ["Multiply", ["const", S("c2")], ["Sine", X]]]),
        (["expr", ["Negation", ["const", S("c1")]]], ["expr", ["Negation", ["const", S("c2")]]]),
        (["Point", [["x", S("c1")], ["y", S("c2")]]], ["Point", [["x", S("c3")], ["y", S("c4")]]]),
        (["Point", [["t", S("c1")]]], ["Point", []]),
        (["LocatedDifferential", ["Multiply", X, fam.Y], [["x", S("c1")], ["y", S("c2")]]], ["LocatedDifferential", ["Multiply", X, fam.Y], [["y", S("c2")], ["x", S("c3")]]]),
        (["Partial", ["Minus", X, ["const", S("c1")]], "x", 0], ["Partial", ["Minus", X, ["const", S("c2")]], "x", 1]),
        (["Derivative", ["Divide", X, ["const", S("c1")]], 0], ["Derivative", ["Divide", X, ["const", S("c2")]], 0]),
        (["Differential", ["Power", X, ["const", S("c1")]], 0], ["Differential", ["Power", X, ["const", S("c2")]], 1]),
        (["expr", ["NthRoot", X, S("n1")]], ["expr", ["NthPower", X, S("n1")]]),
        (["expr", ["Exponential", X, S("b1")]], ["expr", ["Logarithm", X, S("b1")]]),
    ]
    for a, b in extra:
        ints = ["n1"] if "n1" in str(a) else []
        js.append({"mode": "reprpair", "a": a, "b": b, "int_inputs": ints, "tag": "symbolic-content"})
    for j in c12.jobs(tier, seed):
        if j.get("mode") == "ldroutes":
            js.append({"mode": "ldroutes", "d": j["d"], "roundtrip": True})
    js.append({"mode": "reprpair", "a": ["expr", ["Sine", X]], "b": ["expr", ["Cosine", X]], "twin": "claim-same-text"})
    for i, j in enumerate(js):
        j["id"] = f"{PROP}-{i}"
    return js


def prepare(spec, ctx):
    c12.prepare(spec, ctx)
    sx.HASH_HOOK[0] = lambda s: 0        # python-level hash of a proxy: everything collides, lookups fall through to == (a fork)


_FORMATS_DONE = set()


def true_vc(name, outs, idx, concrete_too=True, formats=False):
    o = outs[idx]
    res = []

    def judge(val, couts):
        c = couts[idx]
        return None if (c["kind"] == "value" and c.get("value") is True) else f"{name}: {c.get('kind')} {c.get('msg', c.get('value'))}"
    if o["kind"] == "value" and o["value"] is True:
        res.append(VC(name + ":holds-for-all-parameter-values-of-the-path", None, None, {"failed": False}))
        if concrete_too:
            res.append(VC(name + ":real-number-formatting", z3.BoolVal(True), judge, {"concrete_only": True, "candidates": FORMATS if formats else []}))
    else:
        res.append(VC(name, z3.BoolVal(True), judge, {"symbolic": str(o.get("value", o.get("msg")))[:200], "candidates": FORMATS}))
    return res


def vcs(spec, ctx, outs):
    res = []
    if spec["mode"] == "ldroutes":
        return c12.vcs(spec, ctx, outs)
    if outs and outs[0].get("kind") == "skip":
        return []
    ra, rb, sa, sb, eq = outs[0], outs[1], outs[2], outs[3], outs[4]
    for i, o in enumerate(outs[:4]):
        if o["kind"] != "value" or not isinstance(o["value"], str):
            res.append(common.kind_vc("printing-does-not-raise", ctx, o, z3.BoolVal(False), i))
            return res
    same_text = ra["value"] == rb["value"]
    if spec.get("twin"):
        same_text = True
    if same_text and not (eq["kind"] == "value" and eq["value"] is True):
        def judge(val, couts):
            if couts[0].get("value") == couts[1].get("value") and couts[4].get("value") is not True:
                return f"unequal objects print identically: {couts[0].get('value')}"
            if spec.get("twin") and couts[4].get("value") is not True:
                return "twin"
            return None
        res.append(VC("equal-printed-text=>equal-objects", z3.BoolVal(True), judge, {"text": ra["value"][:200], "candidates": COLLISIONS}))
    else:
        res.append(VC("equal-printed-text=>equal-objects:holds", None, None, {"failed": False}))
    for k, (r, s) in enumerate(((ra, sa), (rb, sb))):
        if r["value"] == s["value"]:
            res.append(VC("str==repr:holds", None, None, {"failed": False}))
        else:
            res.append(VC("str==repr", z3.BoolVal(True), lambda val, couts, k=k: (None if couts[k].get("value") == couts[k + 2].get("value") else "str and repr differ"), {}))
    first = spec.get("id") not in _FORMATS_DONE            # the number spellings are tried once per job (on its first path), not once per path
    _FORMATS_DONE.add(spec.get("id"))
    res += true_vc("printed-text-evaluates-to-an-equal-object[a]", outs, 5, formats=first)
    res += true_vc("printed-text-evaluates-to-an-equal-object[b]", outs, 6)
    if outs[7]["kind"] == "value" and outs[7]["value"] == ra["value"]:
        res.append(VC("printing-twice-gives-the-same-text:holds", None, None, {"failed": False}))
    else:
        res.append(VC("printing-twice-gives-the-same-text", z3.BoolVal(True),
                      lambda val, couts: (None if couts[7].get("value") == couts[0].get("value") else f"{couts[0].get('value')} then {couts[7].get('value')}"), {}))
    return res
