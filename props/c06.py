"""C06 - early, late and every other differentiation route give the same answers (DESIGN.md 6, C06)."""
import z3

import families as fam
from families import f4
from harness import routes as rt
from harness.run import VC
from props import common
from props.common import prepare  # noqa: F401

PROP = "C06"
NEUTRALISE = ("D3",)
LEVEL_TEXT = ("Bounded symbolic execution of ALL differentiation routes on the same symbolic point inside one path (Partial, Derivative, "
              "Differential.component(..).at, .component_at, .at(..).component, LocatedDifferential.component; compute_early on/off; variable "
              "as object or name; late objects after as_expression()): per path z3 decides pairwise 'same outcome kind and equal value' for ALL "
              "points that supply the variables, inside AND outside the domain; structural claims (early vs late as_expression(), "
              "Differential.component == Partial, Differential.at == LocatedDifferential) are decided with the library's own == under "
              "solver-checked forks.")
BOUNDS = {
    "quick": {"families": "F1 node lemmas over possibly-undefined children P (all routes), F1 over V, DAG sharing, masked offenders, stratified F2 and "
              "every 5th F4 pattern (5 representative routes), symbolic constants; structural claims on F1/F2/F4 subsets",
              "outside": "deeper trees, n>7, arity>4, rounding size"},
    "thorough": {"families": "as quick with every 2nd F2 tree and F4 pattern (7 routes), F3 chains (every 5th), seeded F5", "outside": "deeper trees, n>7, arity>4, rounding size"},
}
ASSUMPTIONS = ["'the same number up to rounding' is decided as exact equality of the real functions computed by the routes"]
OPTS = {"quick": {"timeout_ms": 8000, "job_budget_s": 40}, "thorough": {"timeout_ms": 20000, "job_budget_s": 120}}

ALL = ["fwd", "fwd_obj", "rev", "rev_obj", "diff_at", "diff_comp_at", "diff_comp", "fwd_early", "diff_at_early", "diff_comp_at_early",
       "diff_comp_early", "fwd_after_asexp", "diff_comp_after_asexp"]
ONEVAR = ["deriv", "deriv_num", "deriv_early", "deriv_after_asexp"]
REP = ["fwd", "rev", "fwd_early", "diff_at_early", "fwd_after_asexp"]
REP7 = REP + ["diff_comp_at", "diff_comp_at_early"]
STRUCT = ["struct_partial_early_late", "struct_diff_early_late", "eq_diff_component_partial", "eq_diff_component_partial_used", "eq_diff_at_located", "synth_rev", "synth_diff_late"]


ROUNDING_PRONE = [[1.1, 2.3], [0.3, 0.7], [1.7, 0.9], [3, 7], [2, 2], [0.7, 1.3], [5, 3]]


def jobs(tier, seed):
    js = []
    from props import c02

    def add(d, routes, var="x", **kw):
        js.append({"mode": "route", "d": d, "routes": list(routes), "var": var, **kw})

    for d in fam.f1(fam.P, tier) + fam.f1_mixed(tier):
        add(d, ALL, var="v1")
    for d in fam.f1(fam.V, tier):
        add(d, STRUCT, var="v1")
    for d in fam.f1(fam.P, "quick"):
        add(d, REP7, var="t")          # a variable that occurs nowhere in the expression
    for d in fam.unary_variants(fam.X, tier) + [["Multiply", fam.X, fam.X], ["Power", fam.X, fam.X], ["Divide", ["const", 1], fam.X], ["Add"], ["const", 2]]:
        add(d, ["fwd"] + ONEVAR + ["struct_deriv_early_late"], var="x", supplied=["x"])
    for d in fam.f1_shared(tier):
        add(d, ALL, var="x")
        add(d, STRUCT, var="y")
    for d in [["NthRoot", ["Multiply", fam.X, fam.Y], 2], ["Logarithm", ["Multiply", fam.X, fam.Y], 3], ["Divide", ["NthRoot", fam.X, 3], fam.Y],
              ["Multiply", ["Exponential", fam.X], ["Sine", fam.Y]], ["Power", fam.X, fam.Y]]:
        add(d, ["eq_diff_at_located", "eq_diff_component_partial", "eq_diff_component_partial_used"], var="x")
    m = c02.masked()
    for d in (m if tier == "thorough" else m[::3]):
        add(d, REP7, var="x")
    for d in [["Multiply", fam.C(1), fam.X, fam.C(2)], ["Power", fam.X, fam.C(1)], ["Power", fam.C(1), fam.X], ["Add", fam.C(1), ["Multiply", fam.C(2), fam.X]],
              ["Divide", fam.X, fam.C(1)], ["Power", fam.C(1), ["Logarithm", fam.X]]]:
        add(d, REP7, var="x")
        add(d, STRUCT, var="x")
    f2 = fam.f2_quick(6, 2) if tier == "quick" else fam.f2("thorough")[::2]
    for i, d in enumerate(f2):
        add(d, REP if tier == "quick" else REP7, var="x")
        if i % 4 == 0:
            add(d, STRUCT, var="x")
        if i % 7 == 0:
            add(d, REP, var="y")
    pats = f4.f4(tier)
    for i, d in enumerate(pats[::2] if tier == "thorough" else pats[::5]):
        vs = rt.variables_of(d)
        if vs:
            add(d, REP if tier == "quick" else REP7, var=vs[0])
            if i % 3 == 0:
                add(d, STRUCT, var=vs[0])
    for d in [["NthRoot", ["NthPower", fam.X, 2], 2], ["Multiply", fam.Y, ["NthRoot", ["NthPower", fam.X, 2], 4]]]:
        add(d, REP, var="x")        # inside the region of known finding D3
    if tier == "thorough":
        for d in fam.f3(tier)[::5]:
            add(d, REP, var="x")
        for d in fam.f5(seed + 6, 80):
            add(d, REP + ["struct_partial_early_late"], var="x")
    # long-lived derivative objects queried again after the expression was used elsewhere, against a fresh reverse-mode reference
    for d in [["NthPower", ["Multiply", fam.X, fam.Y], 2], ["Multiply", fam.X, ["Exponential", fam.X]], ["Divide", ["Sine", fam.X], ["Add", fam.Y, fam.X]],
              ["Logarithm", ["Multiply", fam.X, fam.Y]]]:
        for seq in ([["obj", ""], ["expr", "eval", "q"]], [["obj", ""], ["expr", "rev", "q"]], [["obj", "q"]], [["obj", "q"], ["obj", ""], ["expr", "fwd", "q"]]):
            add(d, ["rev", "fwd", "diff_comp_at", "fwd_early", "diff_at"], var="x", reuse_seq=seq)
    # the main point first, the caches refilled at another point elsewhere, then every route at the main point
    for d in fam.f1_shared(tier)[::3] + [["Multiply", ["Exponential", ["NthPower", fam.X, 2]], fam.Y], ["Logarithm", ["Multiply", fam.X, fam.Y]]]:
        for pre in fam.sandwiches(d)[:4]:
            add(d, ["rev", "fwd", "diff_at", "diff_comp_at", "fwd_early", "diff_at_early"], var="x", pre=pre)
    # ANOTHER expression of the same shape (one constant differs) was differentiated symbolically before, in the same process: a table shared between
    # expressions and keyed by a hash is explored on its colliding path (symbolic numbers hash alike); candidate assignments (x, c1, c2) are CPython's
    # real numeric-hash collisions -1/-2
    for mk in (lambda c: ["Multiply", c, ["NthPower", fam.X, 3]], lambda c: ["Add", ["NthPower", fam.X, 3], ["Multiply", c, fam.X]],
               lambda c: ["Sine", ["Multiply", c, fam.X]], lambda c: ["Power", fam.X, c], lambda c: ["Divide", fam.X, ["Add", fam.X, c]]):
        add(mk(fam.C(1)), ["rev", "fwd", "fwd_early", "fwd_after_asexp", "diff_comp_at_early", "deriv", "deriv_early", "synth_fwd"], var="x", supplied=["x"],
            pre_variant=mk(fam.C(2)), candidates=[[2, -2, -1], [2, -1, -2], [3, -2.0, -1.0]])
    add(["Multiply", fam.V(1), fam.V(2)], ["fwd", "rev"], var="v1", twin="second+1")
    add(["Logarithm", fam.V(1)], ["fwd", "fwd_early"], var="v1", twin="second+1")
    for i, j in enumerate(js):
        j["id"] = f"{PROP}-{i}"
    return js


def vcs(spec, ctx, outs):
    res = []
    routes = spec["routes"]
    n = len(routes)
    base = len(outs) - n
    numeric = [k for k in range(n) if not (routes[k].startswith("struct_") or routes[k].startswith("eq_") or routes[k].startswith("synth_"))]
    ref = numeric[0] if numeric else None
    for k in numeric[1:]:
        v = common.agree_vc(f"routes-agree[{routes[ref]}~{routes[k]}]", ctx, outs, base + ref, base + k, twin=bool(spec.get("twin")))
        if v is None:
            v = VC(f"routes-agree[{routes[ref]}~{routes[k]}]:identical", None, None, {"failed": False})
        res.append(v)
    names = {routes[k]: base + k for k in range(n)}
    if "synth_rev" in names and "synth_diff_late" in names:
        v = common.agree_vc("early~late-Differential-as_expression-same-meaning", ctx, outs, names["synth_rev"], names["synth_diff_late"])
        res.append(v if v is not None else VC("early~late-Differential-as_expression-same-meaning:identical", None, None, {"failed": False}))
    for k in range(n):
        r = routes[k]
        if not (r.startswith("struct_") or r.startswith("eq_")):
            continue
        out = outs[base + k]
        if out["kind"] == "value" and out["value"] is True:
            res.append(VC(f"{r}:holds", None, None, {"failed": False}))
            if r == "eq_diff_at_located":
                # equal over the reals; the stored partials of the two routes may round differently: decided by real runs at rounding-prone points
                idx0 = base + k

                def fj(val, couts, idx0=idx0):
                    c = couts[idx0]
                    return f"Differential(e).at(p) == LocatedDifferential(e, p) is {c.get('value')!r}" if (c["kind"] == "value" and c.get("value") is not True) else None
                res.append(VC(f"{r}:floating-point", z3.BoolVal(True), fj, {"concrete_only": True, "candidates": ROUNDING_PRONE}))
            continue
        # comparing objects evaluates the expression (Differential.at, LocatedDifferential): DomainError outside the domain is right
        v = common.kind_vc(f"{r}", ctx, out, z3.Not(ctx.indom) if out["kind"] == "DomainError" else z3.BoolVal(False), base + k)
        if out["kind"] == "value":
            idx = base + k

            def judge(val, couts, idx=idx):
                o = couts[idx]
                return f"{o.get('value')!r} instead of True" if o["kind"] == "value" and o.get("value") is not True else None
            v = VC(r, z3.BoolVal(True), judge, {"kind": "value"})
            if r == "struct_diff_early_late":
                v.info["attribute"] = {"finding": "D4", "requires_unsat": ["early~late-Differential-as_expression-same-meaning",
                                                                            "early~late-Differential-as_expression-same-meaning:identical",
                                                                            "early~late-Differential-as_expression-same-meaning:ground"]}
        res.append(v)
    return res
