"""C14 - an expression needs exactly the coordinates of the variables it mentions (DESIGN.md 6, C14)."""
import itertools

import z3

import families as fam
from families import f4
from harness import routes as rt
from harness.run import VC
from props import common
from props import names as nm

PROP = "C14"
LEVEL_TEXT = ("Bounded symbolic execution of every entry point at points that supply chosen subsets of the tree's variables (plus extra coordinates): "
              "coordinate VALUES are symbolic (so a truthiness test instead of 'is None' forks at 0 and is caught); per path the outcome kind is checked: "
              "all variables supplied => never CoordinateMissing (for all routes, also when the differentiation variable occurs nowhere); a missing occurring "
              "variable => evaluation never returns a number (also after other evaluations filled the caches); a bare number / Derivative is accepted exactly "
              "for <= 1 variable (also for simplified expressions). Names: the validation pattern read from the running code is translated to a z3 regular "
              "expression and the constructor is executed on a symbolic string: accepted <=> non-empty word characters, and every accepted name works as a "
              "coordinate name on five entry points (CPython's keyword matching is part of the executed semantics).")
BOUNDS = {"quick": {"families": "F1 node lemmas, multi-variable trees (<= 3 variables) x all subsets supplied x extra coordinates x 12 routes; stratified F2 and every 5th F4 "
                    "pattern for the bare-number clause before and after simplification; names: ASCII + one opaque non-ASCII word character, length <= 8",
                    "outside": "more than 3 variables, Unicode tables behind \\\\w, names longer than 8"}}
BOUNDS["thorough"] = {"families": "as quick with all of F2 and F4", "outside": BOUNDS["quick"]["outside"]}
ASSUMPTIONS = ["the set of variables a tree mentions is computed from the descriptor by the harness"]
OPTS = {"quick": {"timeout_ms": 8000, "job_budget_s": 30}, "thorough": {"timeout_ms": 20000, "job_budget_s": 120}}

ROUTES = ["eval", "fwd", "rev", "diff_at", "diff_comp_at", "fwd_early", "diff_at_early", "synth_fwd", "synth_rev", "norm"]


def jobs(tier, seed):
    js = []

    def add(d, routes, var, supplied, **kw):
        js.append({"mode": "route", "d": d, "routes": list(routes), "var": var, "supplied": list(supplied), **kw})

    multi = [["Multiply", fam.X, fam.Y], ["Add", fam.X, ["Logarithm", fam.Y]], ["Power", fam.X, fam.Y], ["Divide", fam.X, ["Sine", fam.Y]],
             ["Multiply", ["const", 0], fam.X, fam.Y], ["Exponential", ["Multiply", fam.X, fam.Y, fam.Z]], ["Minus", ["NthPower", fam.X, 2], ["NthRoot", fam.Z, 3]],
             ["Add", ["Multiply", fam.X, fam.Y], ["Multiply", fam.Y, fam.Z], ["Sine", ["Multiply", fam.X, fam.Z]]], fam.X, ["Negation", fam.X],
             ["NthPower", ["share", "s", ["Add", fam.X, fam.Y]], 2], ["Multiply", ["Minus", fam.X, fam.X], fam.Y], ["Add"], ["const", 1],
             ["Multiply", ["Reciprocal", fam.X], fam.Y], ["Add", fam.X, ["Multiply", ["const", 0], ["Logarithm", fam.Y]]]]
    for d in multi:
        vs = rt.variables_of(d)
        for r in range(len(vs) + 1):
            for sub in itertools.combinations(vs, r):
                for extra in ((), ("extra1",)):
                    sup = list(sub) + list(extra)
                    for var in sorted(set(vs[:1] + ["t"])):
                        add(d, ROUTES if (len(sub) == len(vs) or tier == "thorough") else ROUTES[:5], var, sup)
                    if len(sub) < len(vs):
                        # a missing coordinate after the caches were filled by a complete evaluation elsewhere
                        add(d, ["eval"], vs[0], sup, pre=[["eval", "root", "q"]])
                        add(d, ["eval"], vs[0], sup, pre=[["fwd", "root", "q"]])
                        # the failing evaluation itself came first, then other entry points filled the caches at a complete point, then it is repeated
                        add(d, ["eval"], vs[0], sup, pre=[["eval", "root", ""], ["fwd", "root", "q"]])
                        add(d, ["eval"], vs[0], sup, pre=[["eval", "root", ""], ["rev", "root", "q"], ["eval", "root", "q"], ["fwd_early", "root", "q"]])
    # Derivative of expressions with at most one variable, evaluated at a Point (complete, with extra coordinates, empty for variable-free trees)
    for d in [["Add"], ["const", 3], ["Add", ["const", 2], ["Multiply"]], ["NthPower", fam.X, 2], ["Multiply", fam.X, ["Exponential", fam.X]], fam.X]:
        vs = rt.variables_of(d)
        for sup in (vs, vs + ["extra1"], vs + ["a0", "zz"]):
            add(d, ["deriv", "deriv_early", "deriv_after_asexp", "eval"], (vs or ["t"])[0], sup)
    for d in fam.f1(fam.V, tier):
        vs = rt.variables_of(d)
        add(d, ROUTES[:7], (vs or ["t"])[0], vs)
        if vs:
            add(d, ["eval", "fwd", "rev"], vs[0], vs[1:])
            add(d, ["eval"], vs[0], vs[1:], pre=[["eval", "root", "q"]])
            add(d, ["eval"], vs[0], vs[1:], pre=[["eval", "root", ""], ["fwd", "root", "q"]])
            add(d, ["eval", "fwd", "rev"], vs[0], vs, pre=[["eval", "root", ""], ["fwd", "root", "q"], ["eval", "root", "q"]])
    for d in fam.f1_shared(tier):
        add(d, ["eval"], "x", ["y"], pre=[["eval", "root", "q"]])
        add(d, ["eval"], "x", ["x"], pre=[["fwd", "root", "q"]])
        if any(isinstance(c, list) and c[0] == "share" for c in d[1:]):
            key = [c for c in d[1:] if isinstance(c, list) and c[0] == "share"][0][1]
            add(d, ["eval"], "x", ["y"], pre=[["eval", key, "q"]])
    # bare number / Derivative accepted exactly for <= 1 variable, before and after simplification
    f2 = fam.f2_quick(6, 3) if tier == "quick" else fam.f2("thorough")
    pats = f4.f4(tier)
    pats = pats if tier == "thorough" else pats[::5]
    for d in f2 + pats + multi:
        vs = rt.variables_of(d)
        js.append({"mode": "barenumber", "d": d, "nvars": len(vs)})
        if len(vs) <= 1 and d[0] not in ("var", "const"):
            js.append({"mode": "barenumber", "d": d, "nvars": len(vs), "embed": True})
    js.append({"mode": "names"})
    js.append({"mode": "names", "maxlen": 3, "twin": "lowercase-only"})
    add(["Multiply", fam.X, fam.Y], ["eval"], "x", ["x", "y"], twin="pretend-missing")
    for i, j in enumerate(js):
        j["id"] = f"{PROP}-{i}"
    return js


def prepare(spec, ctx):
    if spec["mode"] == "names":
        from symreal import core as sx
        sx.PARAM_NAMES.clear()
        ctx.int_names = set()
        return nm.prepare(spec, ctx)
    if spec["mode"] == "barenumber":
        from symreal import core as sx
        sx.PARAM_NAMES.clear()
        ctx.consts = {"a": z3.Real("a")}
        ctx.env = {"a": sx.SymReal(ctx.consts["a"])}
        ctx.int_names, ctx.assume = set(), []
        for s in rt.syms_of(spec["d"]):
            c = z3.Real(s)
            ctx.consts[s] = c
            ctx.env[s] = sx.SymReal(c)
            sx.PARAM_NAMES.add(s)
        return
    return common.prepare(spec, ctx)


def vcs(spec, ctx, outs):
    if spec["mode"] == "names":
        return nm.vcs(spec, ctx, outs)
    res = []
    if spec["mode"] == "barenumber":
        few = spec["nvars"] <= 1
        labels = ["e.at(number)", "Derivative(e).at(number)", "Derivative(e, compute_early=True)", "normalized.at(number)", "Derivative(normalized)"]
        for k, o in enumerate(outs):
            accepted = o["kind"] in ("value", "DomainError")
            rejected = o["kind"] == "exc:Exception"
            if k >= 3 and not few:
                good = True           # a simplified expression may mention fewer variables
            else:
                good = accepted if few else rejected
            if o["kind"] == "CoordinateMissing" or o["kind"].startswith("exc:") and o["kind"] != "exc:Exception":
                good = False
            name = f"{labels[k]}:{'accepted' if few else 'rejected'}-with-{spec['nvars']}-variables"
            if good:
                res.append(VC(name + ":holds", None, None, {"failed": False}))
            else:
                def judge(val, couts, k=k, few=few):
                    c = couts[k]
                    acc = c["kind"] in ("value", "DomainError")
                    rej = c["kind"] == "exc:Exception"
                    ok = (acc if few else rej) or (k >= 3 and not few and (acc or rej))
                    return None if ok else f"{labels[k]}: {c.get('kind')} {c.get('msg', '')}"
                res.append(VC(name, z3.BoolVal(True), judge, {}))
        return res
    vs = set(rt.variables_of(spec["d"]))
    sup = set(spec["supplied"])
    complete = vs <= sup
    if spec.get("twin"):
        complete = False
    n = len(spec["routes"])
    for k in range(n):
        idx = len(outs) - n + k
        o = outs[idx]
        r = spec["routes"][k]
        if complete:
            if o["kind"] == "CoordinateMissing":
                res.append(common.kind_vc(f"all-variables-supplied=>no-CoordinateMissing[{r}]", ctx, o, z3.BoolVal(False), idx))
            else:
                res.append(VC(f"all-variables-supplied=>no-CoordinateMissing[{r}]:holds", None, None, {"failed": False}))
        elif r == "eval":
            if o["kind"] == "value":
                res.append(common.kind_vc("missing-variable=>evaluation-returns-no-number", ctx, o, z3.BoolVal(False), idx))
            else:
                res.append(VC("missing-variable=>evaluation-returns-no-number:holds", None, None, {"failed": False}))
    return res
