"""C12 - equality is structural, an equivalence, and consistent with hashing (DESIGN.md 6, C12)."""
import z3

import families as fam
import oracle as orc
from symreal import core as sx
from symreal import symhash
from harness import routes as rt
from harness.run import VC
from props import common

PROP = "C12"
LEVEL_TEXT = ("Symbolic execution of the real __eq__/__hash__ code of expressions, points and derivative objects on pairs and triples whose parameters "
              "(n, base, constant values, coordinates) are solver variables: per path z3 decides 'a == b <=> structural specification' for ALL parameter "
              "values (so 2 vs 2.0, and n1 vs n2, are decided, not sampled), symmetry, reflexivity and transitivity on the same path, and 'a == b => hash(a) == "
              "hash(b)' with hash() shadowed by an uninterpreted function that respects Python's numeric invariant (a congruence query). Classes, "
              "arities, argument orders and one-position differences are enumerated; foreign comparands must not raise. Replay uses real hash(), sets and dicts.")
BOUNDS = {"quick": {"pairs": "26 base objects x {identical, one leaf, one parameter (symbolic), argument order, arity, class swap, int/float spelling, variable as "
                    "name/object, compute_early flag, point coordinate order/values/names} + triples for transitivity; 11 foreign comparands",
                    "outside": "larger trees than the base list (equality is a structural recursion: covered by the node-level cases), hash VALUES (only consistency)"}}
BOUNDS["thorough"] = {"pairs": "as quick, with every F1 node-lemma tree and every 6th stratified F2 tree as additional base objects (about 200 base objects x one-difference variants)",
                      "outside": BOUNDS["quick"]["outside"]}
ASSUMPTIONS = ["hash() of str/int/float/tuple is modelled by uninterpreted functions with congruence only (numerically equal numbers hash equal)"]
OPTS = {"quick": {"timeout_ms": 10000}, "thorough": {"timeout_ms": 30000}}
FOREIGN = ["None", "1", "2.5", "'x'", "()", "[]", "object()", "Point", "Partial", "ExpressionClass"]

X, Y = fam.X, fam.Y
SYM = lambda n: ["sym", n]  # noqa: E731


def base_exprs(tier="quick"):
    extra = []
    if tier == "thorough":
        import families as fam2
        extra = [d for d in fam2.f1(fam2.V, "quick") + fam2.f2_quick(6, 0)[::6] if not rt.syms_of(d)]
    return extra + [X, ["const", 2], ["Negation", X], ["Sine", X], ["NthPower", X, 2], ["NthRoot", X, 3], ["Exponential", X], ["Exponential", X, 2],
            ["Logarithm", X, 2], ["Minus", X, Y], ["Divide", X, Y], ["Power", X, Y], ["Add", X, Y], ["Add", X, Y, ["const", 1]], ["Multiply", X, Y],
            ["Multiply", X, ["Add", X, Y]], ["Add"], ["Multiply"], ["Reciprocal", ["NthPower", ["Add", X, Y], 2]]]


def variants(d):
    """descriptors differing from d in exactly one respect (or equal by a different spelling)"""
    out = [("same", d)]
    k = d[0]
    if k == "var":
        out += [("leaf", Y), ("class", ["const", 2])]
    elif k == "const":
        out += [("spelling", ["const", float(d[1])]), ("leaf", ["const", d[1] + 1]), ("param-sym", ["const", SYM("c2")])]
    elif k in rt.UNARY:
        other = {"Negation": "Reciprocal", "Reciprocal": "Negation", "Sine": "Cosine", "Cosine": "Sine"}[k]
        out += [("class", [other, d[1]]), ("leaf", [k, Y])]
    elif k in rt.PARAM_N:
        other = "NthRoot" if k == "NthPower" else "NthPower"
        out += [("class", [other, d[1], d[2]]), ("param", [k, d[1], d[2] + 1]), ("spelling", [k, d[1], float(d[2])]), ("leaf", [k, Y, d[2]])]
    elif k in rt.PARAM_BASE:
        other = "Logarithm" if k == "Exponential" else "Exponential"
        b = d[2] if len(d) > 2 else None
        if not (other == "Logarithm" and b == 1):          # Logarithm(base=1) is rejected at construction: not a comparand
            out += [("class", [other, d[1]] + ([b] if b else []))]
        out += [("param", [k, d[1], 3]), ("leaf", [k, Y] + ([b] if b else []))]
        if b:
            out += [("spelling", [k, d[1], float(b)])]
        else:
            out += [("spelling", [k, d[1], 2.718281828459045])]
    elif k in rt.BINARY:
        other = {"Minus": "Divide", "Divide": "Power", "Power": "Minus"}[k]
        out += [("class", [other, d[1], d[2]]), ("order", [k, d[2], d[1]]), ("leaf", [k, d[1], ["const", 1]])]
    elif k in rt.NARY:
        other = "Multiply" if k == "Add" else "Add"
        out += [("class", [other] + d[1:]), ("arity", d + [X]), ("arity", d[:-1] if len(d) > 1 else d + [Y])]
        if len(d) > 2:
            out += [("order", [k] + d[1:][::-1]), ("leaf", d[:-1] + [["const", 7]])]
    return out


def jobs(tier, seed):
    js = []

    def pair(a, b, c=None, **kw):
        js.append({"mode": "pair", "a": a, "b": b, "c": c, **kw})

    for d in base_exprs(tier):
        for tag, v in variants(d):
            pair(["expr", d], ["expr", v], foreign=FOREIGN if tag == "same" else [], containers=(tag in ("same", "spelling")), tag=tag)
            if tag in ("same", "spelling", "param"):
                vs_d = sorted(set(rt.variables_of(d)) | set(rt.variables_of(v)))
                pt_all = [[n, k + 1] for k, n in enumerate(vs_d)]
                for w, mk in (("Partial", lambda e: ["Partial", e, "x", 0]), ("Derivative", lambda e: ["Derivative", e, 0]),
                              ("Differential", lambda e: ["Differential", e, 0]), ("LocatedDifferential", lambda e: ["LocatedDifferential", e, pt_all])):
                    if w == "Derivative" and len(rt.variables_of(d)) > 1:
                        continue
                    pair(mk(d), mk(v), tag=tag + ":" + w, containers=True)
    # symbolic parameters: equality must hold exactly when the parameters are numerically equal
    sym_pairs = [
        (["expr", ["NthPower", X, SYM("n1")]], ["expr", ["NthPower", X, SYM("n2")]], ["n1", "n2"]),
        (["expr", ["NthRoot", X, SYM("n1")]], ["expr", ["NthRoot", X, SYM("n2")]], ["n1", "n2"]),
        (["expr", ["NthPower", X, SYM("n1")]], ["expr", ["NthRoot", X, SYM("n1")]], ["n1"]),
        (["expr", ["Exponential", X, SYM("b1")]], ["expr", ["Exponential", X, SYM("b2")]], []),
        (["expr", ["Logarithm", X, SYM("b1")]], ["expr", ["Logarithm", X, SYM("b2")]], []),
        (["expr", ["Exponential", X, SYM("b1")]], ["expr", ["Logarithm", X, SYM("b1")]], []),
        (["expr", ["const", SYM("c1")]], ["expr", ["const", SYM("c2")]], []),
        (["expr", ["Add", X, ["const", SYM("c1")]]], ["expr", ["Add", X, ["const", SYM("c2")]]], []),
        (["expr", ["Multiply", ["const", SYM("c1")], X]], ["expr", ["Multiply", X, ["const", SYM("c1")]]], []),
        (["Point", [["x", SYM("c1")], ["y", SYM("c2")]]], ["Point", [["y", SYM("c3")], ["x", SYM("c4")]]], []),
        (["Point", [["x", SYM("c1")]]], ["Point", [["x", SYM("c1")], ["y", SYM("c2")]]], []),
        (["Point", [["x", SYM("c1")], ["y", SYM("c2")]]], ["Point", [["x", SYM("c1")]]], []),
        (["Point", []], ["Point", [["x", SYM("c1")]]], []),
        (["Point", [["x", SYM("c1")]]], ["Point", [["y", SYM("c1")]]], []),
        (["Partial", ["Multiply", ["const", SYM("c1")], X], "x", 0], ["Partial", ["Multiply", ["const", SYM("c2")], X], "obj:x", 1], []),
        (["Partial", ["Multiply", X, Y], "x", 0], ["Partial", ["Multiply", X, Y], "y", 0], []),
        (["Partial", ["Multiply", X, Y], "x", 1], ["Partial", ["Multiply", X, Y], "obj:x", 0], []),
        # multi-character names: the two specs carry distinct string objects (names built at run time are not interned)
        (["Partial", ["Multiply", ["var", "alpha_1"], Y], "alpha_1", 0], ["Partial", ["Multiply", ["var", "alpha_1"], Y], "obj:alpha_1", 1], []),
        (["Partial", ["Sine", ["var", "theta"]], "theta", 0], ["Partial", ["Sine", ["var", "theta"]], "".join(["th", "eta"]), 0], []),
        (["expr", ["Add", ["var", "alpha_1"], ["var", "beta_2"]]], ["expr", ["Add", ["var", "alpha_" + "1"], ["var", "beta_2"]]], []),
        (["Point", [["alpha_1", SYM("c1")]]], ["Point", [["alpha_" + "1", SYM("c1")]]], []),
        (["Derivative", ["NthPower", X, SYM("n1")], 0], ["Derivative", ["NthPower", X, SYM("n2")], 1], ["n1", "n2"]),
        (["Differential", ["Add", X, ["const", SYM("c1")]], 1], ["Differential", ["Add", X, ["const", SYM("c2")]], 0], []),
        (["LocatedDifferential", ["Multiply", X, Y], [["x", SYM("c1")], ["y", SYM("c2")]]], ["LocatedDifferential", ["Multiply", X, Y], [["y", SYM("c3")], ["x", SYM("c4")]]], []),
        (["LocatedDifferential", ["Multiply", X, Y], [["x", SYM("c1")], ["y", SYM("c2")]]], ["LocatedDifferential", ["Multiply", Y, X], [["x", SYM("c1")], ["y", SYM("c2")]]], []),
        (["Partial", X, "x", 0], ["Derivative", X, 0], []),
        (["Differential", X, 0], ["Derivative", X, 0], []),
        (["expr", X], ["Point", [["x", 1]]], []),
    ]
    for a, b, ints in sym_pairs:
        pair(a, b, int_inputs=ints, tag="symbolic", foreign=FOREIGN[:4])
    # triples (transitivity) with symbolic parameters
    pair(["expr", ["NthPower", X, SYM("n1")]], ["expr", ["NthPower", X, SYM("n2")]], ["expr", ["NthPower", X, SYM("n3")]], int_inputs=["n1", "n2", "n3"], tag="triple")
    pair(["expr", ["const", SYM("c1")]], ["expr", ["const", SYM("c2")]], ["expr", ["const", SYM("c3")]], tag="triple")
    pair(["expr", ["Exponential", X, SYM("b1")]], ["expr", ["Exponential", X, SYM("b2")]], ["expr", ["Exponential", X, 2]], tag="triple")
    pair(["Point", [["x", SYM("c1")]]], ["Point", [["x", SYM("c2")]]], ["Point", [["x", SYM("c3")], ["y", 1]]], tag="triple")
    pair(["expr", ["Add", X, Y]], ["expr", ["Add", X, Y]], ["expr", ["Add", X, Y, X]], tag="triple")
    # the same LocatedDifferential through different routes; floating-point rounding of the stored partials must not leak into ==
    for d in [["Multiply", ["NthRoot", X, 3], Y], ["Divide", ["NthPower", X, 3], Y], ["Logarithm", X, 10], ["Multiply", ["Exponential", X], ["Sine", Y]],
              ["Power", X, Y], ["Add", ["Multiply", X, Y], ["Reciprocal", X]]]:
        js.append({"mode": "ldroutes", "d": d})
    # USED objects against never-used twins: an object that was hashed / printed / evaluated / differentiated / simplified before, and objects derived
    # from it afterwards (its simplified form, its symbolic partial, its first operand), are still equal to, and hash like, their never-used twins
    for a, b, c, tag in aged_pairs(tier):
        pair(a, b, c, tag=tag, containers=True)
    pair(["expr", ["const", SYM("c1")]], ["expr", ["const", SYM("c2")]], tag="symbolic", twin="claim-never-equal")
    pair(["expr", ["NthPower", X, SYM("n1")]], ["expr", ["NthPower", X, SYM("n2")]], int_inputs=["n1", "n2"], tag="symbolic", twin="claim-always-equal")
    for i, j in enumerate(js):
        j["id"] = f"{PROP}-{i}"
    return js


AGED_BASES = [["NthPower", ["Add", X, ["const", 0]], 3], ["Logarithm", ["Multiply", ["const", 1], X], 2],
              ["Add", ["Sine", ["Negation", ["Negation", X]]], Y], ["Multiply", ["NthRoot", ["Add", X, ["const", 0]], 3], ["Exponential", ["Minus", Y, ["const", 0]], 2]],
              ["Reciprocal", ["Multiply", X, Y]], ["NthPower", ["Sine", X], 2], ["Exponential", ["Negation", X]], ["Add", X, ["const", SYM("c1")]]]
AGES = [["hash"], ["repr"], ["hash", "repr", "at", "fwd", "rev"], ["norm", "hash"], ["early", "diff_early", "norm", "norm", "repr"],
        ["parent_norm", "parent_early", "hash"], ["at_missing", "asexp", "repr", "hash"]]
DERIVES = ["self", "norm", "asexp", "inner", "inner_of_norm"]


def aged_pairs(tier):
    out = []
    for bi, d in enumerate(AGED_BASES):
        for ai, ages in enumerate(AGES):
            for di, how in enumerate(DERIVES):
                if tier == "quick" and (bi + ai + di) % 2 and not (ai < 2 and how == "norm"):
                    continue
                out.append((["aged", ["expr", d], ages, how], ["aged", ["expr", d], [], how], None, "used:" + how))
    # derivative objects that reach their stored symbolic partial through different routes
    for z in (["NthPower", ["Sine", X], 2], ["Reciprocal", ["Multiply", X, Y]], ["Multiply", ["Exponential", X], ["Sine", ["Multiply", X, Y]]],
              ["Divide", ["Logarithm", X], ["NthRoot", Y, 3]]):
        P0, P1 = ["Partial", z, "x", 0], ["Partial", z, "x", 1]
        out.append((["aged", P0, ["asexp"]], ["diffcomp", z, "x", 1], P0, "used:routes"))
        out.append((["aged", P1, ["at", "hash"]], ["aged", ["diffcomp", z, "x", 0], ["asexp", "repr"]], P1, "used:routes"))
        out.append((["aged", ["diffcomp", z, "obj:x", 1], ["asexp", "at"]], ["aged", P0, ["asexp", "hash"]], ["diffcomp", z, "x", 0], "used:routes"))
        out.append((["aged", ["Differential", z, 0], ["asexp", "at", "hash"]], ["Differential", z, 1], ["aged", ["Differential", z, 1], ["asexp"]], "used:routes"))
        if len(rt.variables_of(z)) == 1:
            out.append((["aged", ["Derivative", z, 0], ["asexp", "repr"]], ["Derivative", z, 1], ["aged", ["Derivative", z, 0], ["at"]], "used:routes"))
            out.append((["aged", ["Derivative", z, 0], ["asexp"]], ["aged", ["Partial", z, "x", 1], ["asexp"]], None, "used:routes"))
    return out


def canon(o):
    """the value an object spec denotes, as a plain spec (how it was obtained and what was done with it before do not matter)"""
    if o is None:
        return None
    if o[0] == "aged":
        how = o[3] if len(o) > 3 else "self"
        base = canon(o[1])
        if how == "self":
            return base
        if how == "inner" and base[0] == "expr":
            return ["expr", base[1][1]]
        return ["derived", base, how]
    if o[0] == "diffcomp":
        return ["Partial", o[1], o[2], o[3]]
    if o[0] == "diffat":
        return ["LocatedDifferential", o[1], o[2]]
    return o


def collect_syms(o, acc):
    if o is not None and o[0] == "aged":
        return collect_syms(o[1], acc)
    def num(v):
        if isinstance(v, (list, tuple)) and len(v) == 2 and v[0] == "sym" and v[1] not in acc:
            acc.append(v[1])
    if o is None:
        return
    if o[0] == "Point":
        for n, v in o[1]:
            num(v)
        return
    for x in o[1:]:
        if isinstance(x, list) and x and isinstance(x[0], str) and x[0] in rt.ALL_KINDS + ("share",):
            for s in rt.syms_of(x):
                if s not in acc:
                    acc.append(s)
        elif isinstance(x, list):
            for it in x:
                if isinstance(it, list) and len(it) == 2:
                    num(it[1])


ROUNDING_PRONE = [[3, 7], [2, 2], [0.7, 1.3], [1.1, 2.3], [5, 3], [0.3, 0.9], [7, 11]]


def prepare(spec, ctx):
    symhash.inject_hash()
    if spec["mode"] == "ldroutes":
        from props import common as cm
        return cm.prepare({"d": spec["d"], "mode": "route", "routes": []}, ctx)
    names = []
    for o in (spec["a"], spec["b"], spec.get("c")):
        collect_syms(o, names)
    ctx.consts, ctx.env = {}, {}
    ctx.int_names = set(spec.get("int_inputs", []))
    ctx.assume = []
    sx.PARAM_NAMES.clear()
    sx.PARAM_NAMES.update(names)
    for n in names:
        if n in ctx.int_names:
            c = z3.Int(n)
            ctx.env[n] = sx.SymInt(c)
            ctx.assume.append(c >= 1)
        else:
            c = z3.Real(n)
            ctx.env[n] = sx.SymReal(c)
            if n.startswith("b"):
                ctx.assume += [c > 0, c != 1]
        ctx.consts[n] = c


def num_eq(a, b, env):
    return orc.num_term(a, env) == orc.num_term(b, env)


def d_eq(d1, d2, env):
    """structural-equality specification on descriptors, as a z3 Bool"""
    if d1[0] != d2[0]:
        return z3.BoolVal(False)
    k = d1[0]
    if k == "var":
        return z3.BoolVal(d1[1] == d2[1])
    if k == "const":
        return num_eq(d1[1], d2[1], env)
    if k in rt.PARAM_N:
        return z3.And(d_eq(d1[1], d2[1], env), num_eq(d1[2], d2[2], env))
    if k in rt.PARAM_BASE:
        b1 = d1[2] if len(d1) > 2 else 2.718281828459045
        b2 = d2[2] if len(d2) > 2 else 2.718281828459045
        return z3.And(d_eq(d1[1], d2[1], env), num_eq(b1, b2, env))
    if len(d1) != len(d2):
        return z3.BoolVal(False)
    return z3.And([d_eq(a, b, env) for a, b in zip(d1[1:], d2[1:])] + [z3.BoolVal(True)])


def pt_eq(p1, p2, env):
    m1, m2 = dict(p1), dict(p2)
    if set(m1) != set(m2):
        return z3.BoolVal(False)
    return z3.And([num_eq(m1[n], m2[n], env) for n in m1] + [z3.BoolVal(True)])


def o_eq(a, b, env):
    a, b = canon(a), canon(b)
    if a[0] == b[0] == "derived":
        # the same derivation from equal bases (only such pairs are generated)
        return o_eq(a[1], b[1], env) if a[2] == b[2] else z3.BoolVal(False)
    if a[0] != b[0]:
        return z3.BoolVal(False)
    k = a[0]
    if k == "expr":
        return d_eq(a[1], b[1], env)
    if k == "Point":
        return pt_eq(a[1], b[1], env)
    if k == "Partial":
        va, vb = a[2].replace("obj:", ""), b[2].replace("obj:", "")
        return z3.And(d_eq(a[1], b[1], env), z3.BoolVal(va == vb))
    if k in ("Derivative", "Differential"):
        return d_eq(a[1], b[1], env)
    if k == "LocatedDifferential":
        return z3.And(d_eq(a[1], b[1], env), pt_eq(a[2], b[2], env))
    return z3.BoolVal(False)


def bool_vc(name, outs, idx, want_expr, ctx):
    """outs[idx] is a concrete bool on this path; it must equal the z3 Bool want_expr for all parameter values of the path"""
    o = outs[idx]
    if o["kind"] != "value" or not isinstance(o["value"], bool):
        return common.kind_vc(name + ":comparison-returns-bool-without-raising", ctx, o, z3.BoolVal(False), idx)
    got = o["value"]
    q = z3.Not(want_expr) if got else want_expr

    def judge(val, couts):
        c = couts[idx]
        try:
            w = orc.mp_bool(want_expr, val)
        except Exception:  # noqa
            return None
        if c["kind"] != "value" or c.get("value") is not w:
            return f"{name}: got {c.get('value', c.get('kind'))!r}, specification says {w}"
        return None
    return VC(name, q, judge, {})


def vcs(spec, ctx, outs):
    res = []
    if spec["mode"] == "ldroutes":
        o = outs[0]
        nm = "LocatedDifferential-obtained-through-any-route:printed-text-evaluates-to-an-equal-object" if spec.get("roundtrip") else "same-LocatedDifferential-through-different-routes"

        def judge(val, couts):
            c = couts[0]
            if c["kind"] != "value":          # DomainError outside the domain; OverflowError etc. are excluded by the property (C17 owns foreign errors)
                return None
            return None if c.get("value") is True else f"{nm} fails: {c}"
        if o["kind"] == "value" and o["value"] is True:
            return [VC(nm + ":equal-over-the-reals", None, None, {"failed": False}),
                    VC(nm + ":floating-point", z3.BoolVal(True), judge,
                       {"concrete_only": True, "candidates": ROUNDING_PRONE})]
        if o["kind"] == "DomainError":
            return [VC(nm + ":outside-domain", None, None, {"failed": False})]
        return [VC(nm, z3.BoolVal(True), judge, {"candidates": ROUNDING_PRONE})]
    if outs and outs[0].get("kind") == "skip":
        return []
    env = ctx.consts
    spec_ab = o_eq(spec["a"], spec["b"], env)
    if spec.get("twin") == "claim-never-equal":
        spec_ab = z3.BoolVal(False)
    if spec.get("twin") == "claim-always-equal":
        spec_ab = z3.BoolVal(True)
    res.append(bool_vc("a==b<=>structural-specification", outs, 0, spec_ab, ctx))
    res.append(bool_vc("symmetric:b==a", outs, 1, spec_ab, ctx))
    res.append(bool_vc("reflexive", outs, 2, z3.BoolVal(True), ctx))
    res.append(bool_vc("a!=b-is-the-negation", outs, 3, z3.Not(spec_ab), ctx))
    ha, hb = outs[4], outs[5]
    if ha["kind"] != "value" or hb["kind"] != "value":
        res.append(common.kind_vc("hashable", ctx, ha if ha["kind"] != "value" else hb, z3.BoolVal(False), 4 if ha["kind"] != "value" else 5))
    elif outs[0]["kind"] == "value" and outs[0]["value"] is True:
        ta, tb = symhash.term(ha["value"]), symhash.term(hb["value"])
        if ta.eq(tb):
            res.append(VC("equal=>equal-hashes:identical-terms", None, None, {"failed": False}))
        else:
            def judge(val, couts):
                if couts[0].get("value") is True and couts[4].get("value") != couts[5].get("value"):
                    return f"a == b but hash(a)={couts[4].get('value')} != hash(b)={couts[5].get('value')}"
                return None
            res.append(VC("equal=>equal-hashes", ta != tb, judge, {}))
    if spec.get("c"):
        spec_bc = o_eq(spec["b"], spec["c"], env)
        spec_ac = o_eq(spec["a"], spec["c"], env)
        res.append(bool_vc("b==c<=>specification", outs, 6, spec_bc, ctx))
        res.append(bool_vc("a==c<=>specification", outs, 7, spec_ac, ctx))
        if outs[0].get("value") is True and outs[6].get("value") is True:
            res.append(bool_vc("transitive", outs, 7, z3.BoolVal(True), ctx))
    base = 9
    for k, f in enumerate(spec.get("foreign", [])):
        o = outs[base + k]
        want = z3.BoolVal(False)
        if f == "Point" and spec["a"][0] == "Point":
            want = pt_eq(spec["a"][1], [["x", 1]], env)
        if f == "Partial" and spec["a"][0] == "Partial":
            want = z3.And(d_eq(spec["a"][1], X, env), z3.BoolVal(spec["a"][2].replace("obj:", "") == "x"))
        res.append(bool_vc(f"comparison-with-foreign-object[{f}]", outs, base + k, want, ctx))
    if spec.get("containers"):
        idx = base + len(spec.get("foreign", []))
        o = outs[idx]
        if o["kind"] == "value" and o["value"] is True or o["kind"].startswith("exc:TypeError") or isinstance(o.get("value"), bool) is False:
            # under the symbolic engine every hash value is 0 for the interpreter (all keys collide): real hashing is decided in the concrete replay
            def judge(val, couts):
                c = couts[idx]
                return None if (c["kind"] == "value" and c.get("value") is True) else f"set/dict membership inconsistent with ==: {c}"
            res.append(VC("set/dict-membership-consistent-with-==", z3.BoolVal(True), judge, {"concrete_only": True}))
        else:
            res.append(common.kind_vc("set/dict-membership-consistent-with-==", ctx, o, z3.BoolVal(False), idx))
    return res
