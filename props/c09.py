"""C09 - answers do not depend on what was computed before (DESIGN.md 6, C09)."""
import itertools
import random

import z3

from symreal import core as sx
from harness.run import VC
from props import common

PROP = "C09"
NEUTRALISE = ("D3",)
LEVEL_TEXT = ("Bounded symbolic execution of operation HISTORIES on pools of expressions that share sub-expression objects: the two points p, q "
              "are symbolic, hence so are the cache contents left behind by every earlier operation (including the partial states left by a "
              "call that raised DomainError or CoordinateMissing half-way: q on a domain boundary or lacking a coordinate is just a path). The "
              "last operation is executed on the used pool and, on the same path, on a freshly built pool; z3 decides 'same outcome kind and "
              "equal value' for ALL p, q; expressions are compared with the library's own ==. INDUCTIVE STEP (histories of any length): the per-node "
              "memo fields are found by diffing every node's __dict__ across evaluations (no names assumed); they are then overwritten, on every node of the "
              "pool, with ARBITRARY content (an independent symbolic number per field, or left empty, in four solver-chosen patterns) and one operation is run: "
              "its answer must equal the fresh pool's for all points and all memo contents. Whatever sequence of evaluations and numeric derivative queries "
              "came before, it can only have left some content in those fields, so this covers such histories of every length; histories through the "
              "simplifier (which also sets the reduced/failed flags, whose invariant is semantic) are covered by the bounded exploration only.")
BOUNDS = {
    "quick": {"inductive_step": "4 pools x 2 targets x {at, Partial late/early, LocatedDifferential}, every memo field of every node arbitrary (4 patterns)",
              "histories": "length 2-4 over {at, Partial late/early, LocatedDifferential, Differential early, as_expression (forward/reverse), "
              "_normalize, failing calls (DomainError / CoordinateMissing), constructor side effects, long-lived Partial/Differential objects queried "
              "repeatedly, outputs of earlier simplifications used as operands}; 5 pools sharing 1-2 sub-expression objects (incl. structurally equal "
              "twins); stratified sample", "outside": "longer histories, larger pools, more than two points"},
    "thorough": {"inductive_step": "8 pools x 3 targets x 9 operations", "histories": "all length-2 histories over the alphabet x targets, a seeded sample of 1600 length-3 and length-4 histories, all long-lived-object and "
                 "composed-output histories; 5 pools", "outside": "longer histories, larger pools, more than two points"},
}
ASSUMPTIONS = ["bound argument (DESIGN.md 6/C09): every memo field of a node is overwritten or cleared by the last operation that reaches it, so histories of "
               "length 3 over pools sharing <=2 nodes realise every combination of 'last toucher' per shared node; stated, not machine-checked",
               "the fresh comparison pool is built by the same constructor calls; for composed outputs it is rebuilt from the printed form (relies on C13)"]
OPTS = {"quick": {"timeout_ms": 8000, "job_budget_s": 40, "max_paths": 1500}, "thorough": {"timeout_ms": 20000, "job_budget_s": 200, "max_paths": 3000}}

PRE = ["at", "fwd", "rev", "early", "norm", "asexp", "diff_early"]
FINAL = ["at", "fwd", "fwd_y", "rev", "early", "diff_early", "asexp", "asexp_rev", "norm"]
NEEDS_POINT = {"at", "fwd", "fwd_y", "rev", "early", "diff_early"}
POOLS = ["A", "B", "C", "D", "E"]
TARGETS = {"C": ("e1", "e2", "e3", "b1", "b2", "b3")}


def op(k, target, pt):
    return [k, target, pt] if k in NEEDS_POINT else [k, target]


def all_len2():
    out = []
    for pool in POOLS:
        for pre, ptq in itertools.product(PRE + ["embed"], ("q", "m")):
            if pre not in NEEDS_POINT and ptq == "m":
                continue
            for t1, fin, t2 in itertools.product(("e1", "e2", "s"), FINAL, ("e1", "e2", "e3")):
                out.append({"pool": pool, "hist": [op(pre, t1, ptq), op(fin, t2, "p")]})
    return out


def long_lived():
    out = []
    for pool in POOLS:
        for kind in ("partial", "partial_early", "diff", "diff_early", "partial_y", "partial_t"):
            for t in ("e1", "e2", "e3"):
                for mid in (["at", t, "q"], ["rev", t, "q"], ["at", "s", "q"], ["fwd", "e1" if t != "e1" else "e2", "q"], ["at", t, "m"]):
                    out.append({"pool": pool, "hist": [["mk", "P", kind, t], ["q", "P", "p"], mid, ["q", "P", "p2"]]})
                out.append({"pool": pool, "hist": [["mk", "P", kind, t], ["q", "P", "q"], ["q", "P", "p"]]})
                if kind in ("diff", "diff_early"):
                    out.append({"pool": pool, "hist": [["mk", "P", kind, t], ["q", "P", "q"], ["qat", "P", "p"]]})
                    out.append({"pool": pool, "hist": [["mk", "P", kind, t], ["qasexp", "P"], ["qat", "P", "p"]]})
                    out.append({"pool": pool, "hist": [["mk", "P", kind, t], ["qat", "P", "q"], ["qat", "P", "p"]]})
                    out.append({"pool": pool, "hist": [["mk", "P", kind, t], ["qat", "P", "q"], ["q", "P", "p"]]})
                    out.append({"pool": pool, "hist": [["mk", "P", kind, t], ["qat", "P", "q"], ["qasexp", "P"]]})
                out.append({"pool": pool, "hist": [["mk", "P", kind, t], ["qasexp", "P"], ["q", "P", "p"]]})
                out.append({"pool": pool, "hist": [["mk", "P", kind, t], ["q", "P", "q"], ["qasexp", "P"]]})
                out.append({"pool": pool, "hist": [["mk", "P", kind, t], ["q", "P", "q"], ["qasexp", "P"], ["q", "P", "p"]]})
    for pool in POOLS:
        for t in ("e1", "e2", "e3"):
            for kind in ("located", "located_via_diff"):
                # a LocatedDifferential kept alive while another reverse pass runs on the same expression at another point
                for mid in (["rev", t, "p"], ["diff_early", t, "p"], ["at", t, "p"], ["qat", "Q", "p"]):
                    h = [["mk", "L", kind, t]] + ([["mk", "Q", "diff", t]] if mid[0] == "qat" else []) + [mid, ["qld", "L"]]
                    out.append({"pool": pool, "hist": h})
    return out


def composed():
    out = []
    for pool in POOLS:
        for how, t in (("recip_of_asexp", "e3"), ("recip_of_asexp", "e2"), ("neg_of_norm", "e1"), ("neg_of_norm", "e3"), ("sum_with_asexp", "e2"),
                       ("sum_with_asexp", "e1"), ("prod_with_norm", "e3"), ("prod_with_norm", "e2")):
            for fin in (["norm", "N"], ["asexp", "N"], ["at", "N", "p"], ["early", "N", "p"], ["asexp_rev", "N"]):
                out.append({"pool": pool, "hist": [["mkexpr", "N", how, t], fin]})
    return out


def jobs(tier, seed):
    js = []
    l2 = all_len2()
    ll = long_lived()
    co = composed()
    rng = random.Random(12345)
    if tier == "quick":
        sel = l2[::41] + ll[::5] + [h for h in ll if any(o[0] in ("qat", "qld") for o in h["hist"])][::4] + co[::3]
        # a shared node that can fail is evaluated on its own (possibly outside its domain), then an expression containing it
        for pool, sh, roots in (("A", "s", ("e1", "e2", "e3")), ("D", "s", ("e1", "e2")), ("K", "s", ("e1",)), ("L", "s", ("e1", "e2"))):
            for r in roots:
                sel.append({"pool": pool, "hist": [["at", sh, "q"], ["at", r, "p"]]})
                sel.append({"pool": pool, "hist": [["at", sh, "q"], ["norm", r], ["at", r, "p"]]})
                sel.append({"pool": pool, "hist": [["at", r, "q"], ["norm", r], ["at", r, "p"]]})
                sel.append({"pool": pool, "hist": [["at", r, "q"], ["asexp", r]]})
        for b in ("b1", "b2", "b3"):
            sel.append({"pool": "C", "hist": [["at", b, "q"], ["at", b, "p"]]})
            sel.append({"pool": "C", "hist": [["fwd", b, "q"], ["rev", b, "p"]]})
    else:
        sel = l2[::3] + ll + co
        rng3 = random.Random(seed)
        for n_h in range(1600):
            pool = rng3.choice(POOLS + ["G", "H", "I"])
            h = []
            for i in range(2 if n_h % 3 else 3):
                k = rng3.choice(PRE + ["embed"])
                h.append(op(k, rng3.choice(["e1", "e2", "e3", "s"]), rng3.choice(["q", "q", "m", "p"])))
            h.append(op(rng3.choice(FINAL), rng3.choice(["e1", "e2", "e3"]), "p"))
            sel.append({"pool": pool, "hist": h})
    for t in ("e1", "e2", "e3"):
        # an undefined, still reducible variable-free sub-expression met by the simplifier a second time
        sel.append({"pool": "I", "hist": [["norm", t], ["norm", t]]})
        sel.append({"pool": "I", "hist": [["norm", "s"], ["norm", t]]})
        sel.append({"pool": "I", "hist": [["asexp", t], ["asexp", t]]})
        sel.append({"pool": "I", "hist": [["norm", "w"], ["asexp_rev", t]]})
        sel.append({"pool": "J", "hist": [["norm", t], ["asexp", t]]})
    for pool in ("A", "B", "D", "E", "H"):
        for t in ("e1", "e2", "e3"):
            # the previous evaluation was at a point that reads like this one position by position (values of x and y exchanged, written y first)
            for fin in ("at", "fwd", "rev", "early", "diff_early"):
                sel.append({"pool": pool, "hist": [["at", t, "q"], op(fin, t, "sw")]})
            if pool in ("D", "E", "H"):
                # the object (or a shared part of it) was hashed / printed before it was simplified or differentiated
                for pre in (["hash", t], ["repr", t], ["hash", "s"]):
                    for fin in ("norm", "asexp", "asexp_rev"):
                        sel.append({"pool": pool, "hist": [pre, [fin, t]]})
    for t in ("e1", "e3"):
        sel.append({"pool": "F", "hist": [["mk", "P", "partial", t], ["q", "P", "q"], ["qasexp", "P"], ["q", "P", "p"]]})
        sel.append({"pool": "F", "hist": [["at", t, "q"], ["early", t, "p"]]})
        sel.append({"pool": "F", "hist": [["norm", t], ["fwd", t, "p"]]})
    for s in sel:
        js.append({"mode": "history", **s})
    # inductive step: arbitrary content in every memo field of every node, then one operation
    for pool in (POOLS + ["G", "H"] if tier == "thorough" else ["A", "B", "D", "G"]):
        for t in (("e1", "e2", "e3") if tier == "thorough" else ("e1", "e2")):
            for k in (FINAL if tier == "thorough" else ["at", "fwd", "rev", "early"]):
                js.append({"mode": "anycache", "pool": pool, "op": op(k, t, "p"), "slots": 24})
    js.append({"mode": "history", "pool": "A", "hist": [["at", "e1", "q"], ["at", "e2", "p"]], "twin": "second+1"})
    js.append({"mode": "history", "pool": "B", "hist": [["fwd", "e1", "q"], ["rev", "e1", "p"]], "twin": "second+1"})
    for i, j in enumerate(js):
        j["id"] = f"{PROP}-{i}"
    return js


def prepare(spec, ctx):
    ctx.consts, ctx.env = {}, {}
    ctx.int_names = set()
    for n in ("p_x", "p_y", "q_x", "q_y"):
        c = z3.Real(n)
        ctx.consts[n] = c
        ctx.env[n] = sx.SymReal(c)
    ctx.assume = []
    sx.PARAM_NAMES.clear()
    if spec["mode"] == "anycache":
        for k in range(spec.get("slots", 24)):
            c = z3.Real(f"m{k}")
            ctx.consts[f"m{k}"] = c
            ctx.env[f"m{k}"] = sx.SymReal(c)
        t = z3.Int("pattern")
        ctx.consts["pattern"] = t
        ctx.env["pattern"] = sx.SymInt(t)
        ctx.int_names.add("pattern")
        ctx.assume += [t >= 0, t <= 3]


def vcs(spec, ctx, outs):
    if spec["mode"] == "anycache":
        outs = outs[:3]
    i, j, eq = len(outs) - 3, len(outs) - 2, len(outs) - 1
    name = "last-operation==same-operation-on-fresh-pool" if spec["mode"] != "anycache" else "operation-with-arbitrary-memo-contents==fresh-pool"
    if outs[eq].get("value") is not None or outs[eq]["kind"] != "value":
        # both results are expressions: compared with the library's own ==
        o = outs[eq]
        if o["kind"] == "value" and o["value"] is True:
            return [VC(name + ":equal-expressions", None, None, {"failed": False})]

        def judge(val, couts):
            c = couts[eq]
            if c["kind"] == "value" and c.get("value") is True:
                return None
            return f"expressions differ ({c.get('kind')} {c.get('value')!r}): {str(couts[i].get('value'))[:150]} vs {str(couts[j].get('value'))[:150]}"
        return [VC(name + ":expressions", z3.BoolVal(True), judge, {"a": repr(outs[i].get("value"))[:200], "b": repr(outs[j].get("value"))[:200]})]
    v = common.agree_vc(name, ctx, outs, i, j, twin=bool(spec.get("twin")))
    if v is None:
        v = VC(name + ":identical", None, None, {"failed": False})
    if spec["mode"] == "anycache" and len(ctx.outs) > 3:
        v.info["memo_fields_found_by_diffing"] = ctx.outs[3].get("value")
    return [v]
