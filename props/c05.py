"""C05 - symbolic derivatives denote the true derivative on the original's domain (DESIGN.md 6, C05)."""
import z3

import families as fam
import oracle as orc
from families import f4
from harness import routes as rt
from props import common
from props.common import prepare  # noqa: F401

PROP = "C05"
NEUTRALISE = ("D3",)
LEVEL_TEXT = ("Bounded symbolic execution of both symbolic differentiation routes (forward: Partial/Derivative.as_expression(); reverse with "
              "symbolic multipliers: Differential(compute_early=True).component().as_expression()) INCLUDING the simplifier applied to the result, "
              "followed by symbolic evaluation of the returned expression: per path z3 decides 'on the original's domain the returned expression "
              "is defined and equals the textbook derivative of the original's denotation' for ALL points at once; second order by "
              "differentiating the returned expression once more; the returned expression is also evaluated at a point supplying only the "
              "original's variables (no new variable may be mentioned).")
BOUNDS = {
    "quick": {"families": "F1 node lemmas over children V and A, DAG sharing, symbolic constants (so that the simplifier's value tests fork), "
              "stratified F2 and every F4 rule pattern as originals (forward route; both routes for every 4th); second-order partials on F1(V) originals",
              "outside": "deeper originals, n>7, arity>4, third and higher order"},
    "thorough": {"families": "as quick with every 2nd F2 tree, every F4 pattern (both routes for every 2nd), F3 chains (every 5th), seeded F5; second order on F1 and every 6th F2 tree",
                 "outside": "deeper originals, n>7, arity>4, third and higher order"},
}
ASSUMPTIONS = ["evaluation of the returned expression is itself executed symbolically (the evaluator is covered by C01/C02)"]
OPTS = {"quick": {"timeout_ms": 8000, "job_budget_s": 40}, "thorough": {"timeout_ms": 20000, "job_budget_s": 120}}

ROUTES1 = ["synth_fwd", "synth_rev"]


def jobs(tier, seed):
    js = []

    def add(d, routes=ROUTES1, var="x", **kw):
        js.append({"mode": "route", "d": d, "routes": list(routes), "var": var, **kw})

    for d in fam.f1(fam.V, tier):
        add(d, var="v1")
        add(d, ["synth2_fwd", "synth2_rev"], var="v1", var2="v2" if "v2" in rt.variables_of(d) else "v1")
    for d in fam.f1(fam.A, tier):
        add(d, var="x")
    for d in fam.unary_variants(fam.X, tier):
        add(d, ["synth_deriv"], var="x")
    for d in fam.f1_shared(tier):
        add(d, var="x")
        add(d, var="y")
    for d in [["Multiply", fam.C(1), fam.X, fam.C(2)], ["Power", fam.X, fam.C(1)], ["Power", fam.C(1), fam.X], ["Add", fam.C(1), ["Multiply", fam.C(2), fam.X]],
              ["Divide", fam.X, fam.C(1)], ["NthPower", ["Multiply", fam.C(1), fam.X], 2], ["Exponential", ["Multiply", fam.C(1), fam.X]]]:
        add(d, var="x")
    # two different originals (same shape, different constant) differentiated one after the other in the same process
    def variant_pair(mk):
        return mk(fam.C(1)), mk(fam.C(2))
    for mk in (lambda c: ["Multiply", c, ["NthPower", fam.X, 2]], lambda c: ["Add", ["NthPower", fam.X, 3], ["Multiply", c, fam.X]],
               lambda c: ["Sine", ["Multiply", c, fam.X]], lambda c: ["Power", fam.X, c], lambda c: ["Divide", fam.X, ["Add", fam.X, c]]):
        d, v = variant_pair(mk)
        # candidate assignments (x, c1, c2): CPython's numeric-hash collisions -1/-2
        js.append({"mode": "route", "d": d, "pre_variant": v, "routes": list(ROUTES1) + ["synth2_fwd"], "var": "x", "var2": "x",
                   "candidates": [[3, -2, -1], [2, -1, -2], [3, -2.0, -1.0]]})
    # the original was USED before it is differentiated symbolically (its nodes hold values of another point q, possibly of a failed evaluation), and
    # the derivative object itself was queried numerically / located before it is asked for its expression
    import json as _json
    import re as _re
    used = fam.f1_shared(tier) + [["Multiply", ["Exponential", fam.X], ["NthRoot", fam.Y, 3]], ["Power", ["Add", fam.X, ["const", 2]], fam.Y],
                                   ["Divide", ["Sine", ["Multiply", fam.X, fam.Y]], ["Add", ["NthPower", fam.X, 2], ["const", 1]]]]
    for i, d in enumerate(used):
        keys = sorted(set(_re.findall(r'"share", "(\w+)"', _json.dumps(d))))
        pres = [[["eval", "root", "q"]], [["fwd", "root", "q"]], [["rev", "root", "q"], ["eval", "root", "q"]]] + [[["eval", k, "q"]] for k in keys]
        for pre in (pres if tier == "thorough" else pres[i % 2::2] + pres[:1]):
            add(d, var="x", pre=pre)
        for seq in ([["at", "q"]], [["at", "q"], ["obj", "q"]], [["comp", "q"], ["at", "q"]], [["expr", "eval", "q"], ["at", ""]]):
            add(d, ["synth_rev", "synth_fwd", "synth_diff_late"], var="x", reuse_seq=seq)
    add(["Exponential", fam.A(1), ["sym", "b"]], var="x", assume=[["gt", "b", 0]])
    add(["Logarithm", fam.A(1), ["sym", "b"]], var="x", assume=[["gt", "b", 0], ["ne", "b", 1]])
    f2 = fam.f2_quick(6, 1) if tier == "quick" else fam.f2("thorough")[::2]
    for i, d in enumerate(f2):
        add(d, var="x")
        if i % 5 == 0:
            add(d, var="y")
        if tier == "thorough" and i % 6 == 0:
            add(d, ["synth2_fwd"], var="x", var2="y")
    pats = f4.f4(tier)
    for i, d in enumerate(pats):
        if rt.variables_of(d):
            both = (i % 2 == 0) if tier == "thorough" else (i % 4 == 0)
            add(d, ROUTES1 if both else ROUTES1[:1], var=rt.variables_of(d)[0])
    for d in [["NthRoot", ["NthPower", fam.X, 2], 2], ["NthRoot", ["NthPower", fam.X, 4], 2], ["Multiply", fam.Y, ["NthRoot", ["NthPower", fam.X, 2], 4]],
              ["NthRoot", ["Multiply", ["NthPower", fam.X, 2], ["NthPower", fam.Y, 2]], 2]]:
        add(d, var="x")     # originals inside the region of known finding D3 (even root of an even power)
    if tier == "thorough":
        for d in fam.f3(tier)[::5]:
            add(d, var="x")
        for d in fam.f5(seed + 5, 80):
            add(d, var="x")
    for d in (["Multiply", fam.V(1), fam.V(2)], ["Logarithm", fam.V(1)]):
        add(d, var="v1", twin="oracle+1")
    for i, j in enumerate(js):
        j["id"] = f"{PROP}-{i}"
    return js


def vcs(spec, ctx, outs):
    res = []
    var = spec["var"]
    x = ctx.zenv.get(var, z3.Real(var))
    ref1 = orc.ddx(ctx.ref, x)
    twin = bool(spec.get("twin"))
    n = len(spec["routes"])
    for k in range(n):
        idx = len(outs) - n + k
        out = outs[idx]
        r = spec["routes"][k]
        ref = ref1
        if r.startswith("synth2"):
            y = ctx.zenv.get(spec["var2"], z3.Real(spec["var2"]))
            ref = orc.ddx(ref1, y)
        if out["kind"] == "value":
            res.append(common.eq_value_vc(f"derivative-expression==true-derivative[{r}]", ctx, out, ref, ctx.indom, idx, twin=twin))
        elif out["kind"] == "DomainError":
            res.append(common.kind_vc(f"derivative-expression-defined-on-original-domain[{r}]", ctx, out, z3.Not(ctx.indom), idx))
        elif out["kind"] == "CoordinateMissing":
            res.append(common.kind_vc(f"derivative-expression-mentions-no-new-variable[{r}]", ctx, out, z3.BoolVal(False), idx))
        else:
            res.append(common.kind_vc(f"well-formed-expression[{r}]", ctx, out, z3.BoolVal(False), idx))
    return res
