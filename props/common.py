"""Shared pieces of the property harnesses: symbolic inputs, oracle terms, standard VCs and judges."""
import z3
import mpmath

from symreal import core as sx
from harness import concrete
from harness import routes as rt
from harness.run import VC
import oracle as orc

OK_ERRORS = ("DomainError", "CoordinateMissing")


def prepare(spec, ctx):
    """symbolic inputs for a route-mode job + the oracle terms of its tree"""
    names = concrete.input_names(spec)
    ctx.consts, ctx.env = {}, {}
    ctx.int_names = set(spec.get("int_inputs", []))
    for n in names:
        if n in ctx.int_names:
            c = z3.Int(n)
            ctx.env[n] = sx.SymInt(c)
        else:
            c = z3.Real(n)
            ctx.env[n] = sx.SymReal(c)
        ctx.consts[n] = c
    sx.PARAM_NAMES.clear()
    if "d" in spec:
        sx.PARAM_NAMES.update(rt.syms_of(spec["d"]))
    if spec.get("pre_variant"):
        sx.PARAM_NAMES.update(rt.syms_of(spec["pre_variant"]))
    ctx.assume = [assumption(a, ctx.consts) for a in spec.get("assume", [])]
    if "d" in spec:
        d = rt.strip_share(spec["d"])
        zenv = dict(ctx.consts)
        for v in rt.variables_of(d):
            if v not in zenv:                      # a variable the point does not supply
                zenv[v] = z3.Real("unsupplied_" + v)
        ctx.zenv = zenv
        ctx.vars = rt.variables_of(d)
        if spec.get("may_reject"):
            ctx.ref, ctx.indom = None, z3.BoolVal(True)      # (C17 only: an unconstrained parameter, no reference value is used)
        else:
            ctx.ref, ctx.indom = orc.denote(d, zenv)


def assumption(a, consts):
    op, n, k = a
    c = consts[n]
    c = z3.ToReal(c) if z3.is_int(c) else c
    k = sx.R(k) if not isinstance(k, str) else consts[k]
    return {"gt": c > k, "ge": c >= k, "lt": c < k, "le": c <= k, "ne": c != k, "eq": c == k}[op]


def val_term(out):
    """z3 term of an outcome value, or None if it is not a real number"""
    v = out.get("value")
    if isinstance(v, bool):
        return None
    try:
        return sx.R(v)
    except sx.Unsupported:
        return None


def mp_indom(ctx, val):
    try:
        return orc.mp_bool(z3.simplify(ctx.indom) if False else ctx.indom, val)
    except orc.Undefined:
        return False


def mp_ref(term, val):
    try:
        return orc.mp_term(term, val)
    except orc.Undefined:
        return None


def complete_val(ctx, val):
    """unsupplied variables do not matter for judged values; give them a default so mp evaluation works"""
    v = dict(val)
    for name in getattr(ctx, "zenv", {}):
        v.setdefault(name, mpmath.mpf(1))
        v.setdefault("unsupplied_" + name, mpmath.mpf(1))
    return v


def ground_compare(a, b):
    """both terms variable-free: decide numerically (50 digits); returns True/False, or None if not ground"""
    if orc.is_ground_term(a) and orc.is_ground_term(b):
        try:
            return bool(orc.close(orc.mp_term(a, {}), orc.mp_term(b, {}), rel=1e-12))
        except orc.Undefined:
            return None
    return None


def rel_close(a, b, rel=1e-9):
    a, b = mpmath.mpf(a), mpmath.mpf(b)
    return abs(a - b) <= rel * max(abs(a), abs(b))


def eq_value_vc(name, ctx, out, ref, guard, idx, twin=False):
    """outcome `out` (kind value) must equal `ref` wherever `guard` holds"""
    t = val_term(out)
    if t is None:
        return VC(name + ":non-numeric", guard, lambda val, outs: f"returned non-numeric {outs[idx].get('vtype')}"
                  if outs[idx]["kind"] == "value" and outs[idx].get("mp") is None else None,
                  {"value": repr(out.get("value"))[:80]})
    refq = ref + 1 if twin else ref
    g = ground_compare(t, ref) if not twin else None
    if g is not None and z3.is_true(z3.simplify(guard)):
        return VC(name + ":ground", None, None, {"failed": not g, "why": "ground value differs from the 50-digit reference",
                                                   "value": str(z3.simplify(t))[:80]})

    def judge(val, outs):
        val = complete_val(ctx, val)
        if idx >= len(outs):          # (a counterfactual run may produce fewer intermediate forms)
            return None
        o = outs[idx]
        if o["kind"] != "value" or o.get("mp") is None:
            return None
        try:
            if not orc.mp_bool(guard, val):
                return None
        except orc.Undefined:
            return None
        r = mp_ref(refq, val)
        if r is None:
            return None
        if not orc.close(o["mp"], r):
            return f"returned {mpmath.nstr(o['mp'], 17)} but the reference value is {mpmath.nstr(r, 17)}"
        # small magnitudes: the tolerance above is absolute near zero.  The path's own formula (the code's real-arithmetic trace t) is
        # evaluated exactly: if IT differs from the reference relatively, and the real run followed that formula, the difference is not rounding.
        te = mp_ref(t, val)
        if te is not None and not rel_close(te, r) and rel_close(o["mp"], te, rel=1e-6):
            return (f"returned {mpmath.nstr(o['mp'], 17)} (the path's formula gives {mpmath.nstr(te, 17)} in exact arithmetic) but the reference "
                    f"value is {mpmath.nstr(r, 17)}")
        return None

    return VC(name, z3.And(guard, t != refq), judge, {"candidates": ctx.spec.get("candidates", [])} if getattr(ctx, "spec", None) and ctx.spec.get("candidates") else None)


def kind_vc(name, ctx, out, allowed_when, idx):
    """outcome kind is only allowed where `allowed_when` (z3 bool) holds; sat query = allowed_when is false here"""
    kind = out["kind"]

    def judge(val, outs):
        val = complete_val(ctx, val)
        if idx >= len(outs) or outs[idx]["kind"] != kind:
            return None
        try:
            ok = orc.mp_bool(allowed_when, val)
        except orc.Undefined:
            return None
        return None if ok else f"outcome {kind} ({outs[idx].get('msg', outs[idx].get('value'))}) where it is not allowed"

    return VC(name, z3.Not(allowed_when), judge, {"kind": kind})


def agree_vc(name, ctx, outs, i, j, guard=None, twin=False):
    """two outcomes of the same path must agree: same kind, equal values"""
    a, b = outs[i], outs[j]
    guard = guard if guard is not None else z3.BoolVal(True)
    if a["kind"] != b["kind"]:
        def judge(val, couts):
            if couts[i]["kind"] == couts[j]["kind"]:
                return None
            return f"outcome kinds differ: {couts[i]['kind']} vs {couts[j]['kind']}"
        return VC(name + ":kind", guard, judge, {"kinds": [a["kind"], b["kind"]], "candidates": _cands(ctx)})
    if a["kind"] != "value":
        return None
    if isinstance(a.get("value"), list) and isinstance(b.get("value"), list):
        return _agree_lists(name, a["value"], b["value"], i, j, guard)
    ta, tb = val_term(a), val_term(b)
    if ta is None or tb is None:
        # not numbers: equal only if the raw values are the same object / compare equal as plain Python values
        va, vb = a.get("value"), b.get("value")
        try:
            same = (va is vb) or (type(va) is type(vb) and isinstance(va, (str, bool, type(None), int, float, tuple)) and va == vb)
        except Exception:  # noqa
            same = False
        if same:
            return None

        def judge_raw(val, couts):
            x, y = couts[i], couts[j]
            return None if (x.get("kind") == y.get("kind") and x.get("value") == y.get("value")) else f"results differ: {str(x.get('value'))[:120]} vs {str(y.get('value'))[:120]}"
        return VC(name + ":non-numeric", guard, judge_raw, {"a": repr(va)[:120], "b": repr(vb)[:120]})
    if twin:
        tb = tb + 1
    if ta.eq(tb):
        return None
    g = ground_compare(ta, tb) if not twin else None
    if g is not None:
        return VC(name + ":ground", None, None, {"failed": not g, "why": "ground values differ"})

    def judge(val, couts):
        x, y = couts[i], couts[j]
        if x["kind"] != "value" or y["kind"] != "value" or x.get("mp") is None or y.get("mp") is None:
            return None
        if not orc.close(x["mp"], y["mp"] + (1 if twin else 0)):
            return f"values differ: {mpmath.nstr(x['mp'], 17)} vs {mpmath.nstr(y['mp'], 17)}"
        return None
    return VC(name, z3.And(guard, ta != tb), judge, {"candidates": _cands(ctx)})


def _agree_lists(name, xs, ys, i, j, guard):
    """two outcomes that are lists of numbers (e.g. all components of a located differential)"""
    if len(xs) != len(ys):
        return VC(name + ":length", guard, lambda val, couts: "lists of different length", {})
    try:
        ts = [(sx.R(x), sx.R(y)) for x, y in zip(xs, ys)]
    except sx.Unsupported:
        return None
    diffs = [ta != tb for ta, tb in ts if not ta.eq(tb)]
    if not diffs:
        return None

    def judge(val, couts):
        x, y = couts[i], couts[j]
        if x["kind"] != "value" or y["kind"] != "value" or not x.get("mp_list") or not y.get("mp_list"):
            return None
        for u, v in zip(x["mp_list"], y["mp_list"]):
            if not orc.close(u, v):
                return f"values differ: {mpmath.nstr(u, 17)} vs {mpmath.nstr(v, 17)}"
        return None
    return VC(name, z3.And(guard, z3.Or(diffs)), judge, {"candidates": HASH_COLLISION_POINTS})


def _cands(ctx):
    return list((getattr(ctx, "spec", None) or {}).get("candidates", [])) + HASH_COLLISION_POINTS


# CPython's real numeric-hash collisions, tried first by the replay gate (a hash-keyed table is explored symbolically on its colliding path)
HASH_COLLISION_POINTS = [[-1, 4, -2, 4], [-2, 3, -1, 3], [-1, -1, -2, -2], [-1, -2], [-2, -1]]


def strange(out):
    return out["kind"] not in ("value",) + OK_ERRORS
