"""C17 - only the library's own errors escape, and results are real numbers (DESIGN.md 6, C17)."""
import z3

import families as fam
from harness import routes as rt
from props import common
from harness.run import VC
from props.common import prepare  # noqa: F401
from props import c02

PROP = "C17"
LEVEL_TEXT = ("Bounded symbolic execution of evaluation, every derivative route and as_expression() with proxies that reproduce Python's "
              "error behaviour (ZeroDivisionError of / and negative powers of 0, ValueError of math.sqrt/log, complex results of "
              "negative ** fractional, TypeError of float(complex), KeyError/TypeError raised by the library's own Python code): on every "
              "feasible path the outcome kind must be a real number, DomainError or CoordinateMissing; a foreign outcome on a feasible "
              "path is a solver-produced witness point (inside, outside or on the boundary of the domain, with or without missing coordinates).")
BOUNDS = {
    "quick": {"families": "F1 node lemmas over possibly-undefined children, parameterised nodes whose parameter is an unconstrained solver variable (base: any real; n: any integer <= 6 and any real <= 6), masked offenders, stratified F2, points missing each subset of "
              "coordinates, routes eval/fwd/rev/diff_at/early/as_expression", "outside": "deeper trees, n>7, arity>4, overflow/underflow (NaN/inf)"},
    "thorough": {"families": "as quick with all F2, F3 chains (every fourth), seeded F5", "outside": "deeper trees, n>7, arity>4, overflow/underflow (NaN/inf)"},
}
ASSUMPTIONS = ["NaN/inf cannot arise over the reals except through overflow, which the property excludes"]

NUM = ["eval", "fwd", "rev", "diff_at", "diff_comp_at"]
EARLY = ["fwd_early", "diff_at_early"]
ASEXP = ["asexp_fwd", "asexp_rev"]


def jobs(tier, seed):
    js = []

    def add(d, routes, var="x", **kw):
        js.append({"mode": "route", "d": d, "routes": list(routes), "var": var, **kw})

    for d in fam.f1(fam.P, tier) + fam.f1_mixed(tier):
        add(d, NUM, var="v1")
        add(d, EARLY + ASEXP, var="v1")
    for n in (4, 5, 6, 7, 9):
        add(["NthRoot", fam.V(1), n], NUM + EARLY, var="v1")
        add(["NthRoot", ["Negation", fam.V(1)], n], NUM, var="v1")
    from families import f4
    for d in f4.param_pairs(tier)[-24:]:       # integral-float spellings of n through every numeric and symbolic route
        add(d, NUM + EARLY + ASEXP, var="x")
    for d in f4.f4(tier)[::(9 if tier == "quick" else 3)]:
        if rt.variables_of(d):
            add(d, ["asexp_giveup", "norm_giveup"], var=rt.variables_of(d)[0])
    # the parameter itself is an UNCONSTRAINED solver variable: whatever the constructor lets through (the documented range, or more after a
    # change of the validation) must still only produce the library's own errors on every route
    B, N = ["sym", "b1"], ["sym", "n1"]
    for mk in (lambda u: u, lambda u: ["Negation", u], lambda u: ["Add", u, fam.Y], lambda u: ["Minus", fam.Y, u], lambda u: ["Multiply", u, fam.Y],
               lambda u: ["Sine", u]):
        for u in (["Exponential", fam.X, B], ["Logarithm", fam.X, B]):
            add(mk(u), NUM + EARLY + ASEXP, var="x", may_reject=True)
        for u in (["NthPower", fam.X, N], ["NthRoot", fam.X, N]):
            add(mk(u), NUM + EARLY + ASEXP, var="x", may_reject=True, int_inputs=["n1"], assume=[["le", "n1", 6]])       # (no lower bound)
    add(["NthRoot", fam.X, B], NUM + EARLY, var="x", may_reject=True, assume=[["le", "b1", 6]])
    add(["NthPower", fam.X, B], NUM + EARLY, var="x", may_reject=True, assume=[["le", "b1", 6]])
    m = c02.masked()
    for d in (m if tier == "thorough" else m[::2]):
        add(d, NUM + EARLY[:1], var="x")
    # missing coordinates: every proper subset of the tree's variables
    miss = [["Multiply", fam.X, fam.Y], ["Add", fam.X, ["Logarithm", fam.Y]], ["Power", fam.X, fam.Y], ["Divide", fam.X, ["Sine", fam.Y]],
            ["Multiply", ["Logarithm", fam.X], fam.Y], ["NthRoot", ["Minus", fam.X, fam.Y], 2], ["Multiply", ["const", 0], fam.X], fam.X,
            ["Exponential", ["Multiply", fam.X, fam.Y, fam.Z]]]
    for d in miss:
        vs = rt.variables_of(d)
        for k in range(len(vs)):
            sup = vs[:k] + vs[k + 1:]
            add(d, NUM, var=vs[k], supplied=sup)
            add(d, NUM[:3] + EARLY, var=(sup or vs)[0], supplied=sup)
        add(d, NUM + EARLY, var="x", supplied=[])
    f2 = fam.f2_quick(6, 5) if tier == "quick" else fam.f2("thorough")
    for d in f2:
        add(d, ["eval", "fwd", "rev"], var="x")
    for d in f2[::3]:
        add(d, EARLY + ASEXP, var="x")
    if tier == "thorough":
        for d in fam.f3(tier)[1::4]:
            add(d, ["eval", "fwd", "rev", "fwd_early"], var="x")
        for d in fam.f5(seed + 17, 100):
            add(d, ["eval", "fwd", "rev", "fwd_early", "asexp_fwd"], var="x")
    add(["Reciprocal", fam.V(1)], ["eval"], var="v1", twin="forbid-DomainError")
    add(["Multiply", fam.X, fam.Y], ["fwd"], var="x", supplied=["x"], twin="forbid-CoordinateMissing")
    for i, j in enumerate(js):
        j["id"] = f"{PROP}-{i}"
    return js


def vcs(spec, ctx, outs):
    res = []
    if outs and outs[0].get("kind") == "rejected":
        return [VC("constructor-rejects-the-parameter:no-expression", None, None, {"failed": False, "how": outs[0].get("msg")})]
    n = len(spec["routes"])
    allowed = set(common.OK_ERRORS)
    if spec.get("twin") == "forbid-DomainError":
        allowed.discard("DomainError")
    if spec.get("twin") == "forbid-CoordinateMissing":
        allowed.discard("CoordinateMissing")
    for k in range(n):
        idx = len(outs) - n + k
        out = outs[idx]
        r = spec["routes"][k]
        if out["kind"] == "value":
            v = out["value"]
            if r.startswith("asexp") or r.endswith("_giveup"):
                if v is not True:
                    res.append(common.kind_vc(f"as_expression-returns-expression[{r}]", ctx, out, z3.BoolVal(False), idx))
            elif common.val_term(out) is None:
                res.append(common.kind_vc(f"result-is-real-number[{r}]", ctx, out, z3.BoolVal(False), idx))
        elif out["kind"] not in allowed:
            res.append(common.kind_vc(f"only-library-errors-escape[{r}]", ctx, out, z3.BoolVal(False), idx))
            continue
        else:
            res.append(VC(f"path-outcome-allowed[{r}]", None, None, {"failed": False, "kind": out["kind"]}))
            continue
        if len(res) == 0 or not res[-1].name.startswith(("as_expression", "result-is")):
            res.append(VC(f"path-outcome-allowed[{r}]", None, None, {"failed": False, "kind": "value"}))
    return res
