"""C07 - derivative queries fail exactly where the expression itself is undefined (DESIGN.md 6, C07)."""
import z3

import families as fam
from harness import routes as rt
from props import common
from props.common import prepare  # noqa: F401
from props import c02

PROP = "C07"
NEUTRALISE = ("D3",)
LEVEL_TEXT = ("Bounded symbolic execution of every numeric derivative route (Partial.at, Derivative.at, Differential.at, "
              "Differential.component_at, LocatedDifferential(...), late and compute_early) together with e.at(p) on the SAME path: "
              "per path z3 decides 'the route raises DomainError <=> the point is outside the strict domain' (and the evaluator's own "
              "outcome is cross-checked on that path) for ALL points at once; possibly-undefined children v/w sit in every position the "
              "differentiation rules can skip.")
BOUNDS = {
    "quick": {"families": "F1 node lemmas over possibly-undefined children, one-undefined-child lemmas at every position, masked offenders "
              "(zero factor, zero numerator, base evaluating to one, variable-free undefined sub-trees, n=1, base-1 exponential), differentiation "
              "variable occurring / not occurring in the offending sub-tree, stratified F2; routes: 7 late + 4 early (+Derivative for one variable)",
              "outside": "deeper trees, n>7, arity>4, overflow/underflow"},
    "thorough": {"families": "as quick, all masked offenders under all routes, all of F2 under 4 routes, F3 chains (every fourth), seeded F5",
                 "outside": "deeper trees, n>7, arity>4, overflow/underflow"},
}
ASSUMPTIONS = []
OPTS = {"quick": {"timeout_ms": 10000}, "thorough": {"timeout_ms": 30000}}

LATE = ["fwd", "rev", "diff_at", "diff_comp_at"]
EARLY = ["fwd_early", "diff_at_early", "diff_comp_at_early"]


def jobs(tier, seed):
    js = []

    def add(d, routes, var="x", **kw):
        js.append({"mode": "route", "d": d, "routes": ["eval"] + list(routes), "var": var, **kw})

    for d in fam.f1(fam.P, tier) + fam.f1_mixed(tier):
        add(d, LATE, var="v1")
        add(d, LATE[:2], var="w2")
    for d in fam.f1_mixed("quick"):
        # partial w.r.t. a plain variable next to a possibly-undefined sibling: the symbolic partial may normalise to a constant
        for v in ("v1", "v2", "v3"):
            if v in rt.variables_of(d):
                add(d, ["fwd_early", "diff_comp_at_early", "fwd_after_asexp", "diff_at_early"], var=v)
                add(d, ["fwd", "diff_comp_at", "diff_comp"], var=v)
    for d in [["Add", fam.X, ["Reciprocal", fam.Y]], ["Add", fam.X, ["Logarithm", ["const", -1]]], ["Add", ["Multiply", ["const", 2], fam.X], ["Divide", ["const", 0], ["Logarithm", fam.X]]],
              ["Minus", ["Multiply", ["const", 3], fam.X], ["NthRoot", fam.Y, 2]]]:
        add(d, ["fwd_early", "diff_comp_at_early", "fwd_after_asexp", "deriv_early"] if len(rt.variables_of(d)) <= 1 else ["fwd_early", "diff_comp_at_early", "fwd_after_asexp"], var="x")
    for d in fam.f1(fam.P, "quick"):
        add(d, EARLY[:2], var="v1")
        # the differentiation variable occurs nowhere in the expression (the partial is zero, the domain check must remain)
        add(d, ["fwd", "fwd_early", "fwd_after_asexp", "diff_comp_at_early"], var="t")
    m = c02.masked()
    for i, d in enumerate(m):
        vs = rt.variables_of(d)
        for v in (["x", "z"] if "z" in vs else ["x"]):
            add(d, LATE, var=v)
        if tier == "thorough" or i % 3 == 0:
            add(d, EARLY, var="x")
        if len(vs) <= 1:
            add(d, ["deriv", "deriv_early"], var=(vs or ["x"])[0], supplied=vs)
    for d in fam.f1_shared(tier):
        add(d, LATE[:2] + EARLY[:1], var="x")
    # the main point first, the caches refilled at another point elsewhere, then the queries at the main point
    for d in fam.f1_shared(tier)[::2] + [["Logarithm", ["Add", fam.X, ["const", 1]]], ["Reciprocal", ["Minus", ["Multiply", fam.X, fam.Y], ["const", 1]]]]:
        for pre in fam.sandwiches(d):
            add(d, LATE + EARLY[:2], var="x", pre=pre)
    # one long-lived object located / queried at q first, then at the main point (a table keyed by the point is explored on its colliding path)
    for d in [["Reciprocal", ["Add", fam.X, ["const", 1]]], ["Logarithm", ["Multiply", fam.X, fam.Y]], ["Divide", fam.Y, ["Minus", fam.X, ["const", 2]]]]:
        for r in ("diff_at", "diff_at_early", "diff_comp_at", "fwd", "fwd_early", "fwd_after_asexp"):
            js.append({"mode": "route", "d": d, "routes": ["eval", r], "var": "x", "reuse_seq": [["obj", "q"]]})
            js.append({"mode": "route", "d": d, "routes": ["eval", r], "var": "x", "reuse_seq": [["obj", ""], ["obj", ""]]})
    # one long-lived early object queried at another point first (its own domain check must not rely on leftovers)
    for d in [["Logarithm", fam.X], ["Power", fam.X, ["const", 2]], ["Add", fam.X, ["Logarithm", fam.Y]], ["Logarithm", ["Multiply", fam.X, fam.Y]],
              ["Divide", fam.X, ["Minus", fam.Y, ["const", 1]]]]:
        js.append({"mode": "route", "d": d, "routes": ["eval", "fwd_early"], "var": "x", "reuse_seq": [["obj", "q"]]})
        js.append({"mode": "route", "d": d, "routes": ["eval", "diff_comp_at_early"], "var": "x", "reuse_seq": [["obj", "q"], ["obj", "q"]]})
    for d in [["NthRoot", ["NthPower", fam.X, 4], 16], ["NthRoot", ["NthRoot", ["NthPower", fam.X, 2], 2], 2]]:
        add(d, LATE[:2] + EARLY[:2], var="x")          # inside the region of known finding D3 (the early routes inherit the mis-simplified derivative)
    f2 = fam.f2_quick(6, 4) if tier == "quick" else fam.f2("thorough")
    for d in f2:
        add(d, ["fwd", "rev"], var="x")
    for d in f2[::4]:
        add(d, ["fwd", "rev"], var="y")
        add(d, ["fwd_early", "diff_at_early"], var="x")
    if tier == "thorough":
        for d in fam.f3(tier)[::4]:
            add(d, ["fwd", "rev", "fwd_early"], var="x")
        for d in fam.f5(seed + 7, 100):
            add(d, ["fwd", "rev", "fwd_early"], var="x")
    for d in (["Reciprocal", fam.V(1)], ["Power", ["const", 1], ["Logarithm", fam.X]]):
        add(d, ["fwd", "rev"], var="x" if d[0] == "Power" else "v1", twin="flip-domain")
    for i, j in enumerate(js):
        j["id"] = f"{PROP}-{i}"
    return js


def vcs(spec, ctx, outs):
    res = []
    indom = ctx.indom
    if spec.get("twin"):
        indom = z3.Not(indom)
    n = len(spec["routes"])
    base = len(outs) - n
    ev = outs[base]
    for k in range(1, n):
        idx = base + k
        out = outs[idx]
        r = spec["routes"][k]
        if out["kind"] == "DomainError":
            res.append(common.kind_vc(f"DomainError=>expression-undefined[{r}]", ctx, out, z3.Not(indom), idx))
            if ev["kind"] == "value":      # same path: the evaluator returned a number, the derivative query raised
                res.append(common.kind_vc(f"raises-where-at()-returns[{r}]", ctx, out, z3.BoolVal(False), idx))
        elif out["kind"] == "value":
            res.append(common.kind_vc(f"number=>expression-defined[{r}]", ctx, out, indom, idx))
            if ev["kind"] == "DomainError":
                res.append(common.kind_vc(f"number-where-at()-raises[{r}]", ctx, out, z3.BoolVal(False), idx))
        elif out["kind"] == "CoordinateMissing":
            res.append(common.kind_vc(f"CoordinateMissing-with-all-variables-supplied[{r}]", ctx, out, z3.BoolVal(False), idx))
        # foreign exceptions are C17's subject
    return res
