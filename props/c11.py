"""C11 - simplification terminates in a rule-free form, without cycles (DESIGN.md 6, C11)."""
import random

import z3

import families as fam
from families import f4
from symreal import core as sx
from harness import routes as rt
from harness.run import VC
from props import common

PROP = "C11"
LEVEL_TEXT = ("The rewriter is stepped (_take_reduction_step) from each input of the bounded families until its own 'fully reduced' flag is set; every "
              "intermediate form is recorded. Tree SHAPES are enumerated (this technique cannot quantify over shapes); the solver contributes the value "
              "space: constants are symbolic, so every value test of a rule (== 0, == 1, == -1, integral, > 0, parity of a symbolic n) is a solver-checked "
              "fork and each feasible combination of rule firings is a path. Per path: no form recurs once left, the number of steps is at most "
              "2*size^2+10, a freshly built copy of the final form is not rewritten any further (rule-free), none of the rewrite rules that the nodes of the final form "
              "list (read from the running code) fires on them, the library's own driver emits no "
              "'unable to fully reduce' warning for inputs of <= 20 nodes. An unbounded termination proof is not claimed "
              "(no polynomial interpretation exists for this rule set, DESIGN.md 6/C11).")
BOUNDS = {"quick": {"inputs": "all F4 rule patterns (every two-level combination that can enable several rules at once, symbolic and critical constants), stratified F2, "
                    "chains of 6-40 nodes, the unsimplified symbolic derivatives of every 3rd F4/F2 tree, symbolic-n patterns",
                    "outside": "inputs beyond the families (in particular > 40 nodes; the property text mentions a few hundred), an unbounded termination argument"},
          "thorough": {"inputs": "as quick with all of F2, all F3 chains (every 2nd), seeded F5 trees of 8-20 nodes, long random chains up to 60 nodes, derivatives of every tree",
                       "outside": "inputs beyond the families, an unbounded termination argument"}}
ASSUMPTIONS = ["private entry points _take_reduction_step, _is_fully_reduced, _normalize, _synthetic_partial are used because the property speaks about individual rewrite steps"]
OPTS = {"quick": {"timeout_ms": 8000, "job_budget_s": 60}, "thorough": {"timeout_ms": 20000, "job_budget_s": 600, "job_hard_s": 900}}


def chains(rng, count, lo, hi):
    ks = [["Negation"], ["Reciprocal"], ["Sine"], ["Cosine"], ["NthPower", 2], ["NthPower", 3], ["NthRoot", 2], ["NthRoot", 3], ["Exponential"],
          ["Exponential", 2], ["Logarithm"], ["Logarithm", 2], ["NthPower", 1], ["NthRoot", 1], ["NthPower", 6], ["NthRoot", 4]]
    out = []
    for _ in range(count):
        d = fam.X
        for _ in range(rng.randint(lo, hi)):
            k = rng.choice(ks)
            d = [k[0], d] + k[1:]
        out.append(d)
    return out


def sym_n():
    X = fam.X
    n1, n2 = ["sym", "n1"], ["sym", "n2"]
    return [["NthPower", ["Negation", X], n1], ["NthPower", ["NthPower", X, n2], n1], ["NthRoot", ["NthRoot", X, n2], n1], ["NthRoot", ["Negation", X], n1],
            ["NthPower", ["Reciprocal", X], n1], ["Logarithm", ["NthPower", X, n1]], ["NthRoot", ["NthPower", X, n2], n1], ["NthPower", ["Exponential", X], n1],
            ["Multiply", ["NthPower", X, n1], ["NthPower", fam.Y, n2]], ["Multiply", ["NthRoot", X, n1], ["NthRoot", fam.Y, n2]]]


def jobs(tier, seed):
    js = []
    rng = random.Random(4242)

    def add(d, **kw):
        js.append({"mode": "reduce", "d": d, **kw})

    pats = f4.f4(tier)
    f2 = fam.f2_quick(6, 4) if tier == "quick" else fam.f2("thorough")
    for d in pats + f2:
        add(d)
    k = 3 if tier == "quick" else 1
    for d in (pats + f2)[::k]:
        vs = rt.variables_of(d)
        if vs:
            add(d, input="derivative", var=vs[0])
    for d in chains(rng, 40 if tier == "quick" else 200, 6, 39):
        add(d)
    for d in (pats + f2)[::(7 if tier == "quick" else 2)]:
        if rt.variables_of(d):
            for w in ("Reciprocal", "Negation"):
                add(d, input="composed", wrap=w)
    for d in sym_n():
        add(d, int_inputs=["n1", "n2"])
    if tier == "thorough":
        for d in fam.f3(tier)[::2]:
            add(d)
        for d in fam.f5(seed + 11, 150, 8, 20):
            add(d)
            add(d, input="derivative", var="x")
        for d in chains(random.Random(seed + 1), 60, 40, 60):
            add(d)
        # "a few hundred nodes": long chains and large seeded trees, and their symbolic derivatives
        for d in chains(random.Random(seed + 2), 36, 100, 320):
            add(d)
        big = fam.f5(seed + 12, 80, 30, 120)
        for d in big:
            add(d)
        for d in big[::2] + chains(random.Random(seed + 3), 20, 60, 150):
            add(d, input="derivative", var="x")
    add(["Negation", ["Negation", fam.X]], twin="claim-zero-steps")
    for i, j in enumerate(js):
        j["id"] = f"{PROP}-{i}"
    return js


def prepare(spec, ctx):
    ctx.consts, ctx.env, ctx.assume = {}, {}, []
    ctx.int_names = set(spec.get("int_inputs", []))
    sx.PARAM_NAMES.clear()
    for n in rt.syms_of(spec["d"]):
        if n in ctx.int_names:
            c = z3.Int(n)
            ctx.env[n] = sx.SymInt(c)
            ctx.assume.append(c >= 1)
        else:
            c = z3.Real(n)
            ctx.env[n] = sx.SymReal(c)
        ctx.consts[n] = c
        sx.PARAM_NAMES.add(n)


def analyse(outs, twin=False):
    """returns a list of (name, failure-reason-or-None) from the outcomes of a reduce job (works on symbolic and concrete outcomes)"""
    res = []
    if outs[0]["kind"] != "value":
        return [("stepping-does-not-raise", f"{outs[0]['kind']} {outs[0].get('msg', '')}")]
    forms = outs[0]["value"]
    if len(outs) < 4:
        return [("stepping-does-not-raise", "incomplete outcome list")]
    size, steps, done = outs[1]["value"]
    # a form may persist while only flags are set, but once left it never recurs
    seen, prev, revisit = set(), None, None
    for f in forms:
        if f != prev and f in seen:
            revisit = f
            break
        seen.add(f)
        prev = f
    res.append(("no-form-recurs", f"form recurs: {str(revisit)[:160]}" if revisit else None))
    bound = 2 * size * size + 10
    if twin:
        bound = 0
    res.append(("steps<=2*size^2+10", None if (done and steps <= bound) else f"{steps} steps for {size} nodes (bound {bound}), fully reduced flag {done}"))
    rf = outs[2]
    res.append(("final-form-is-rule-free", None if (rf["kind"] == "value" and rf["value"] is True) else
                f"a fresh copy of the final form is rewritten further: {str(rf.get('value', rf.get('msg')))[:160]}"))
    fu = outs[3]
    if fu["kind"] != "value":
        res.append(("normalize-does-not-raise", f"{fu['kind']} {fu.get('msg', '')}"))
    else:
        warns, n1, n2 = fu["value"]
        if size <= 20:
            res.append(("no-give-up-warning-for-<=20-nodes", None if not warns else f"warning: {warns[:1]}"))
        if len(outs) > 4:
            sw = outs[4]
            if sw["kind"] != "value":
                res.append(("second-reduction-of-the-same-object-terminates", f"{sw['kind']} {sw.get('msg', '')}"))
            else:
                k2, done2, same2, norevisit2 = sw["value"]
                res.append(("second-reduction-of-the-same-object-terminates", None if (done2 and norevisit2 and k2 <= bound) else
                            f"second walk: {k2} steps, fully reduced {done2}, no form revisited {norevisit2}"))
                res.append(("second-reduction-reaches-the-same-form", None if same2 else "the second reduction of the same object ends in a different form"))
        if len(outs) > 5:
            nr = outs[5]
            if nr["kind"] == "value":
                res.append(("no-rewrite-rule-of-any-node-fires-on-the-final-form", None if nr["value"] is True else str(nr["value"])[:200]))
            # (an exception here means the rule lists are not exposed the way this sub-check reads them: it then says nothing)
        # (n1 != n2 is NOT checked: _normalize() is not idempotent - its normal-form pass can expose new rule instances, e.g. two
        #  reciprocals of equal powers become a product of equal powers - and the property does not ask for idempotence; see DESIGN.md)
    return res


def vcs(spec, ctx, outs):
    res = []
    twin = bool(spec.get("twin"))
    for name, why in analyse(outs, twin):
        if why is None:
            res.append(VC(name + ":holds", None, None, {"failed": False}))
        else:
            def judge(val, couts, name=name):
                for n2, w2 in analyse(couts, twin):
                    if n2 == name and w2:
                        return w2
                return None
            res.append(VC(name, z3.BoolVal(True), judge, {"symbolic": why[:300]}))
    return res
