"""C18 - results are reproducible across processes, hash seeds and argument spelling (DESIGN.md 6, C18)."""
import itertools

import z3

import families as fam
from symreal import core as sx
from symreal import ndset
from harness import routes as rt
from harness import run as hrun
from harness.run import VC
from props import common

PROP = "C18"
LEVEL_TEXT = ("Symbolic execution in which the ITERATION ORDER of every variable-name set of every expression, and of every set()/frozenset() built inside "
              "smoothmath, is chosen by the solver (fresh boolean decision variables: all k! orders of every iteration site are paths), and the order in "
              "which a point's coordinates are written is permuted. Inside one path the operation is executed with the canonical order and again with the "
              "solver-chosen order: outcome kinds must agree, expressions must be structurally identical (== and printed form), numbers must be IDENTICAL "
              "TERMS (identical sequence of float operations = bit-for-bit equal). A difference is replayed on the real interpreter in fresh processes under "
              "16 PYTHONHASHSEED values and both coordinate orders; only a difference between real runs is reported.")
BOUNDS = {"quick": {"families": "26 trees over 2-3 variable names (repeated terms, shared nodes, sums/products of same-kind nodes), 10 operations (evaluation, forward, reverse, "
                    "Differential late/early, as_expression forward/reverse, _normalize, printing), points complete / missing a coordinate / outside the domain, "
                    "coordinate order identity and reversed", "outside": "dependence on hash VALUES not mediated by iteration order; sets of more than 3 names; "
                    "non-set sources of nondeterminism (none in the code today)"}}
BOUNDS["thorough"] = {"families": "as quick plus stratified F2 over (x, y), all coordinate permutations", "outside": BOUNDS["quick"]["outside"]}
ASSUMPTIONS = ["identical z3 terms are produced only by identical sequences of arithmetic operations on the proxies (terms are not simplified before comparison)",
               "string hashing is the only seed-dependent input of the interpreter (PYTHONHASHSEED)"]
OPTS = {"quick": {"timeout_ms": 8000, "job_budget_s": 40, "max_paths": 800}, "thorough": {"timeout_ms": 20000, "job_budget_s": 200, "max_paths": 3000}}
SEEDS = list(range(1, 17))

X, Y, Z = fam.X, fam.Y, fam.Z
OPS = ["barenum", "eval", "fwd", "rev_all", "diff_at_all", "diff_at_early_all", "diff_comp_at_early", "asexp_fwd", "asexp_rev", "norm", "repr"]


def trees():
    s = ["share", "s", ["Multiply", X, Y]]
    return [
        ["Add", ["Multiply", X, Y], ["Multiply", Y, Z], ["Sine", ["Multiply", X, Z]]],
        ["Add", ["Sine", X], ["Sine", X], ["Multiply", X, Y], ["Exponential", X]],
        ["Add", ["Multiply", X, Y], ["Multiply", X, Y], ["Multiply", Y, X], Z],
        ["Multiply", ["Add", X, Y], ["Add", X, Y], ["Add", Y, X]],
        ["Multiply", ["Exponential", X], ["Exponential", Y], ["Exponential", Z]],
        ["Add", ["Logarithm", X], ["Logarithm", Y], ["Logarithm", Z, 2], ["Logarithm", X, 2]],
        ["Multiply", ["NthPower", X, 2], ["NthPower", Y, 2], ["NthPower", Z, 3], ["NthRoot", X, 3], ["NthRoot", Y, 3]],
        ["Power", ["Add", X, Y], ["Multiply", Z, X]],
        ["Divide", ["Minus", X, Y], ["Add", ["NthPower", X, 2], ["NthPower", Z, 2], ["const", 1]]],
        ["Add", s, ["Multiply", s, Z], ["NthPower", s, 2]],
        ["Multiply", ["Negation", X], ["Negation", Y], ["Negation", Z], ["Reciprocal", X], ["Reciprocal", Y]],
        ["Add", ["Negation", X], Y, ["Negation", Z], ["const", 2], ["const", 3]],
        ["Multiply", ["Logarithm", X], Y],
        ["Add", ["Multiply", X, ["Exponential", Z]], ["Multiply", Y, ["Logarithm", ["var", "v"]]]],
        ["Minus", ["Multiply", X, Y], ["Divide", Y, X]],
        ["Cosine", ["Add", ["Multiply", ["const", 2], X], ["Multiply", ["const", 3], Y], Z]],
        ["NthRoot", ["Add", ["Multiply", X, X], ["Multiply", Y, Y]], 2],
        ["Add", ["Power", X, Y], ["Power", Y, X]],
        # two variables whose partial derivatives are the same sum / product with the operands in a different order
        ["Add", ["Multiply", X, ["Add", Z, ["const", 1]]], ["Multiply", Y, ["Add", ["const", 1], Z]]],
        ["Add", ["Multiply", X, ["Multiply", Z, ["Sine", Z]]], ["Multiply", Y, ["Multiply", ["Sine", Z], Z]]],
        ["Multiply", ["Add", X, ["Multiply", Z, Z]], ["Add", ["Multiply", Z, Z], Y]],
    ]


def jobs(tier, seed):
    js = []
    for d in trees():
        vs = rt.variables_of(d)
        perms = [list(range(len(vs)))[::-1]] if tier == "quick" else [list(p) for p in itertools.permutations(range(len(vs)))][1:]
        for op in OPS:
            for perm in perms:
                js.append({"mode": "order", "d": d, "op": op, "perm": perm})
        # points missing one coordinate (the kind of failure must not depend on the order either)
        if len(vs) >= 2:
            for op in ("eval", "rev_all", "diff_at_early_all", "diff_at_all", "fwd"):
                js.append({"mode": "order", "d": d, "op": op, "supplied": vs[:-1], "perm": list(range(len(vs) - 1))[::-1]})
                js.append({"mode": "order", "d": d, "op": op, "supplied": vs[1:], "perm": list(range(len(vs) - 1))[::-1]})
                if len(vs) >= 3:
                    js.append({"mode": "order", "d": d, "op": op, "supplied": vs[:1], "perm": [0]})
                js.append({"mode": "order", "d": d, "op": op, "supplied": [], "perm": []})
    # the same expression OBJECT was evaluated before at another point: a remembered result must not be matched by position or by written order
    for d in trees()[::2] + [["Minus", X, Y], ["Divide", X, Y], ["Power", X, Y]]:
        vs = rt.variables_of(d)
        for op in ("eval", "fwd", "rev_all", "diff_at_early_all"):
            js.append({"mode": "order", "d": d, "op": op, "perm": list(range(len(vs)))[::-1], "pre_at": "eval" if op != "eval" else "all"})
    js.append({"mode": "order", "d": ["Add", ["Multiply", ["var", "a"], ["Add", X, Y]], ["Multiply", ["var", "b"], ["Add", Y, X]]], "op": "asexp_rev", "perm": [3, 2, 1, 0]})
    # one-variable expressions at points that carry extra coordinates (Derivative accepts a Point too)
    for d in [["NthPower", X, 2], ["Multiply", X, ["Exponential", X]], ["Logarithm", X], ["Divide", ["Sine", X], X]]:
        for extra in (["t"], ["a", "t"], ["zz", "a"]):
            sup = ["x"] + extra
            for perm in ([list(range(len(sup)))[::-1]] if tier == "quick" else [list(q) for q in itertools.permutations(range(len(sup)))][1:]):
                for op in ("deriv", "eval", "rev_all", "diff_at_early_all"):
                    js.append({"mode": "order", "d": d, "op": op, "supplied": sup, "perm": perm})
    if tier == "thorough":
        for d in fam.f2_quick(6, 0):
            if len(rt.variables_of(d)) >= 2:
                for op in ("diff_at_early_all", "asexp_rev", "rev_all", "norm"):
                    js.append({"mode": "order", "d": d, "op": op, "perm": [1, 0]})
    js.append({"mode": "order", "d": ["Add", ["Multiply", X, Y], Z], "op": "rev_all", "perm": [2, 1, 0], "twin": "pretend-different"})
    for i, j in enumerate(js):
        j["id"] = f"{PROP}-{i}"
    return js


def prepare(spec, ctx):
    ndset.inject_sets()
    names = spec.get("supplied", rt.variables_of(spec["d"]))
    ctx.consts, ctx.env, ctx.int_names, ctx.assume = {}, {}, set(), []
    sx.PARAM_NAMES.clear()
    for n in list(names) + (["q_" + n for n in names] if spec.get("pre_at") else []):
        c = z3.Real(n)
        ctx.consts[n] = c
        ctx.env[n] = sx.SymReal(c)


def observable(o):
    """structural observable of an outcome: kind + printed expression(s) / list of z3 terms"""
    if o["kind"] != "value":
        return (o["kind"], o.get("msg"))      # which variable / value an error message names is part of the outcome
    v = o["value"]
    if type(v).__name__ == "Shown":
        return ("expr", repr(v))
    if isinstance(v, list):
        return ("nums", tuple((sx.R(x).sexpr() if not isinstance(x, (bool, str, type(None))) else str(x)) for x in v))
    return ("num", sx.R(v).sexpr())


def seeds_judge(spec, twin):
    def judge(val, couts):
        enc = getattr(judge, "vc").enc
        base = None
        for perm in (None, spec.get("perm")):
            sp = dict(spec)
            if perm is None:
                sp["perm"] = list(range(len(spec.get("perm", []))))
            for s in SEEDS:
                outs = hrun.run_concrete(sp, enc, hashseed=s)
                sig = [(o.get("kind"), o.get("value"), o.get("msg")) for o in outs]
                sig = sig[:1] if perm is None else sig[1:]       # first run: canonical coordinate order, second: permuted
                if base is None:
                    base = (s, perm, sig)
                elif sig != base[2]:
                    return f"PYTHONHASHSEED={base[0]} gives {str(base[2])[:160]} but PYTHONHASHSEED={s} (coordinate order {perm}) gives {str(sig)[:160]}"
        if twin:
            return "twin"
        return None
    return judge


def vcs(spec, ctx, outs):
    a, b = observable(outs[0]), observable(outs[1])
    twin = bool(spec.get("twin"))
    if a == b and not twin:
        return [VC("canonical-order==solver-chosen-order:identical-observable", None, None, {"failed": False, "kind": a[0]})]
    j = seeds_judge(spec, twin)
    v = VC("canonical-order==solver-chosen-order", z3.BoolVal(True), j, {"canonical": str(a)[:300], "chosen": str(b)[:300]})
    j.vc = v
    return [v]
