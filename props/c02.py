"""C02 - DomainError is raised exactly at the points outside the (strict) domain (DESIGN.md 6, C02)."""
import z3

import families as fam
from props import common
from props.common import prepare  # noqa: F401

PROP = "C02"
LEVEL_TEXT = ("Bounded symbolic execution of the real evaluator: every path (both sides of and exactly on every domain "
              "boundary and zero-shortcut) is explored; per path z3 decides 'outcome is DomainError <=> the point is outside "
              "the strict domain of some sub-expression' for ALL points at once. Children P=v/w may be undefined under every parent.")
BOUNDS = {
    "quick": {"families": "F1 node lemmas over possibly-undefined children P=v_i/w_i (all constructors/parameters), one-undefined-child "
              "lemmas at every position, DAG sharing, stratified F2, offending sub-trees under zero factors / base one / constant folds, "
              "warm-cache variants", "variables": "<=8 symbolic coordinates", "outside": "deeper trees, n>7, arity>4, overflow/underflow"},
    "thorough": {"families": "as quick with n<=7, arity<=4, all of F2, F3 chains (every third), seeded F5",
                 "variables": "<=8 symbolic coordinates", "outside": "deeper trees, n>7, arity>4, overflow/underflow"},
}
ASSUMPTIONS = []

ONE, ZERO = ["const", 1], ["const", 0]
BAD = [["Logarithm", fam.X], ["Reciprocal", fam.X], ["NthRoot", fam.X, 2], ["Divide", fam.Y, fam.X], ["Power", fam.X, fam.Y],
       ["Logarithm", ["const", -1]], ["Reciprocal", ["const", 0]], ["NthRoot", ["const", 0], 3]]


def masked():
    """offending sub-expressions where they cannot influence the value"""
    out = []
    for b in BAD:
        out += [["Multiply", ZERO, b], ["Multiply", b, ZERO], ["Multiply", fam.Z, b], ["Multiply", b, fam.Z, fam.Y],
                ["Divide", ZERO, ["Add", b, ONE]], ["Divide", fam.Z, ["Exponential", b]],
                ["Power", ONE, b], ["Power", ["Add", ONE], b], ["Power", ["Exponential", ZERO], b], ["Exponential", b, 1],
                ["NthPower", b, 1], ["NthRoot", b, 1], ["Multiply", ["Minus", fam.Z, fam.Z], b], ["Add", b, ["Negation", b]],
                ["Minus", b, b], ["Cosine", ["Multiply", ZERO, b]], ["Power", ["Cosine", ZERO], b]]
    return fam.dedup(out)


def jobs(tier, seed):
    js = []

    def add(d, routes=("eval",), **kw):
        js.append({"mode": "route", "d": d, "routes": list(routes), **kw})

    for d in fam.f1(fam.P, tier) + fam.f1(fam.V, tier) + fam.f1_mixed(tier) + fam.f1_shared(tier):
        add(d)
    import json as _json
    import re as _re
    for d in fam.f1_shared(tier):
        for key in sorted(set(_re.findall(r'"share", "(\w+)"', _json.dumps(d)))):
            add(d, pre=[["eval", key, "q"]])                       # a shared node evaluated on its own first (possibly outside its domain)
            add(d, pre=[["eval", key, "q"], ["normalize", "root", None]])
    # the main point first (inside or outside the domain), then the caches refilled at another point elsewhere, then the main point again
    for d in fam.f1_shared(tier) + [["Logarithm", ["Add", fam.X, ["const", 1]]], ["Reciprocal", ["Minus", ["Multiply", fam.X, fam.Y], ["const", 1]]],
                                    ["NthRoot", ["Add", ["NthPower", fam.X, 3], fam.Y], 2]]:
        for pre in fam.sandwiches(d):
            add(d, pre=pre, var="x")
    m = masked()
    for d in (m if tier == "thorough" else m[::2]):
        add(d)
    for d in m[::3] + [["Add", ["Multiply", ZERO, ["Logarithm", fam.X]], ONE], ["Multiply", ["NthPower", ["NthRoot", fam.X, 2], 2], ["const", 3]],
                       ["Add", ["Reciprocal", ["Reciprocal", fam.X]], fam.X]]:
        # simplifying an expression (which may enlarge the domain of the RESULT) must not change where the expression object itself is defined
        add(d, pre=[["normalize", "root", None]])
        add(d, pre=[["asexp_partial", "root", None]], var="x")
    for d in m[::7]:
        add(d, pre=[["eval", "root", "q"]])
    for d in [["Exponential", fam.P(1), ["sym", "b"]]]:
        add(d, assume=[["gt", "b", 0]])
    for d in [["Logarithm", fam.P(1), ["sym", "b"]]]:
        add(d, assume=[["gt", "b", 0], ["ne", "b", 1]])
    for d in [["Power", fam.C(1), fam.P(1)], ["Power", fam.P(1), fam.C(1)], ["Divide", fam.C(1), fam.C(2)], ["Multiply", fam.C(1), fam.P(1)]]:
        add(d)
    # a bare number in place of the point (one-variable expressions), including the number 0
    for d in fam.unary_variants(fam.X, tier) + [["Divide", ["const", 1], fam.X], ["Add", ["NthPower", fam.X, 2], ["const", 3]], ["Multiply", fam.X, ["Reciprocal", fam.X]]]:
        add(d, routes=("eval_num",), var="x", supplied=["x"])
    f2 = fam.f2_quick(6, 1) if tier == "quick" else fam.f2("thorough")
    for d in f2:
        add(d)
    for d in f2[::11]:
        add(d, pre=[["eval", "root", "q"]])
    if tier == "thorough":
        for d in fam.f3(tier)[1::3]:
            add(d)
        for d in fam.f5(seed + 1, 150):
            add(d)
    for d in (["Reciprocal", fam.V(1)], ["Multiply", ZERO, ["Logarithm", fam.X]]):
        add(d, twin="flip-domain")
    for i, j in enumerate(js):
        j["id"] = f"{PROP}-{i}"
    return js


def vcs(spec, ctx, outs):
    out = outs[-1]
    idx = len(outs) - 1
    indom = ctx.indom
    if spec.get("twin"):
        indom = z3.Not(indom)
    if out["kind"] == "DomainError":
        return [common.kind_vc("DomainError=>outside-domain", ctx, out, z3.Not(indom), idx)]
    if out["kind"] == "value":
        v = [common.kind_vc("value=>inside-domain", ctx, out, indom, idx)]
        if common.val_term(out) is None:
            v.append(common.kind_vc("value-is-real-number", ctx, out, z3.BoolVal(False), idx))
        return v
    if out["kind"] == "CoordinateMissing":
        return [common.kind_vc("no-CoordinateMissing-on-domain", ctx, out, z3.Not(indom), idx)]
    return [common.kind_vc("foreign-outcome", ctx, out, z3.BoolVal(False), idx)]
