"""C08 - simplification preserves meaning and never shrinks the domain (DESIGN.md 6, C08)."""
import z3

import families as fam
from families import f4
from harness import routes as rt
from props import common
from props.common import prepare  # noqa: F401

PROP = "C08"
NEUTRALISE = ("D3",)
LEVEL_TEXT = ("Bounded symbolic execution of the real rewriter (_take_reduction_step / _fully_reduce / _normalize_fully_reduced, constant "
              "folding) followed by symbolic evaluation of the input, of EVERY intermediate form and of the final form at the same symbolic "
              "point: per path and per form z3 decides 'defined wherever the input is defined, and equal in value' for ALL points, under the "
              "axiom schemas of the elementary functions with their true side conditions. Symbolic constants make the rewriter's own tests "
              "(value == 0/1/-1/integral, base > 0) solver-checked forks, so each rule instance is covered on both sides of its side condition.")
BOUNDS = {
    "quick": {"families": "F4 rule patterns (every rule's left-hand side with variables in the holes; (n,m) in {1..4}^2 + gcd cases; equal/unequal/"
              "int-vs-float bases; critical and symbolic constants; positions and arities <= 4; constant folding of defined and undefined variable-free "
              "sub-trees), whole pass for all, every individual step for every 2nd pattern, give-up clause (step budget forced to 1,2,3,5), "
              "second simplification of an already simplified object; stratified F2",
              "outside": "deeper inputs, n,m>6 (except listed gcd cases), arity>4, rounding of folded constants (folding is exact in this model)"},
    "thorough": {"families": "as quick with (n,m) in {1..6}^2, every step for every pattern, all of F2, F3 chains (every third), the symbolic partials of F2 trees",
                 "outside": "deeper inputs, n,m>6 (except listed gcd cases), arity>4, rounding of folded constants"},
}
ASSUMPTIONS = ["private entry points _normalize, _take_reduction_step, _is_fully_reduced, _normalize_fully_reduced, REDUCTION_STEPS_BOUND are used "
               "because the property speaks about individual rewrite steps and the give-up clause (the repository's own tests use _normalize too)"]
OPTS = {"quick": {"timeout_ms": 8000, "job_budget_s": 40}, "thorough": {"timeout_ms": 30000, "job_budget_s": 300}}


def jobs(tier, seed):
    js = []

    def add(d, what="pass", **kw):
        js.append({"mode": "simplify", "d": d, "what": what, **kw})

    pats = f4.f4(tier)
    for i, d in enumerate(pats):
        add(d, "pass")
        if tier == "thorough" or i % 2 == 0:
            add(d, "steps")
        if i % 5 == 0:
            add(d, "pass", again=True)
        if i % 6 == 0 and rt.variables_of(d):
            add(d, "pass", pre_eval=True)
    sh = f4.shared_variants(tier)
    for d in (sh if tier == "thorough" else sh[::2]):
        add(d, "pass", again=True)
        add(d, "pass")
    giveup = [p for p in pats if rt.size_of(p) >= 4][:: (3 if tier == "thorough" else 7)]
    for d in giveup:
        for b in ((1, 2, 3, 5) if tier == "thorough" else (1, 3)):
            add(d, "giveup", bound=b)
    # the object on which the rewriter gave up is reused inside another expression (value-preserving wrappers; Reciprocal(Reciprocal(e)) only
    # enlarges... no: it needs e != 0, so it is used on the domain of e with e != 0 by comparing against 1/(1/e) of the reference)
    for d in giveup[::2]:
        for wrap in ("negneg", "addzero", "mulone"):
            add(d, "giveup", bound=2, reuse_after_giveup=wrap)
    for d in [["Multiply", ["const", 2], ["Add", fam.X, fam.Y, ["const", 1]], ["const", 3]], ["Multiply", ["const", 2], fam.X, ["const", 3], fam.Y],
              ["Add", ["const", 2], ["Multiply", fam.X, fam.Y], ["const", 3]], ["Multiply", ["const", ["sym", "c1"]], ["Sine", fam.X], ["const", ["sym", "c2"]]]]:
        for b in (1, 2):
            for wrap in ("negneg", "addzero", "mulone", "recrec"):
                add(["Reciprocal", d] if False else d, "giveup", bound=b, reuse_after_giveup=wrap, nonzero=(wrap == "recrec"))
    # consolidation rules that group nodes by their parameter: the bases are two independent SYMBOLIC numbers (grouping must be by exact equality)
    B1, B2 = ["sym", "b1"], ["sym", "b2"]
    pos = [["gt", "b1", 0], ["gt", "b2", 0]]
    for d in [["Multiply", ["Exponential", fam.X, B1], ["Exponential", fam.Y, B2]], ["Multiply", ["Exponential", fam.X, B1], ["Exponential", fam.X, B2], ["Exponential", fam.Y, B1]],
              ["Divide", ["Exponential", fam.X, B1], ["Exponential", fam.Y, B2]]]:
        add(d, "pass", assume=pos)
        add(d, "steps", assume=pos)
    for d in [["Add", ["Logarithm", fam.X, B1], ["Logarithm", fam.Y, B2]], ["Add", ["Logarithm", fam.X, B1], ["Logarithm", fam.Y, B2], ["Logarithm", fam.Z, B1]],
              ["Minus", ["Logarithm", fam.X, B1], ["Logarithm", fam.Y, B2]]]:
        add(d, "pass", assume=pos + [["ne", "b1", 1], ["ne", "b2", 1]])
        add(d, "steps", assume=pos + [["ne", "b1", 1], ["ne", "b2", 1]])
    f2 = fam.f2_quick(6, 0) if tier == "quick" else fam.f2("thorough")
    for d in f2:
        add(d, "pass")
    if tier == "thorough":
        for d in f2[::2]:
            add(d, "steps")
        for d in fam.f3(tier)[::3]:
            add(d, "pass")
        for d in fam.f5(seed + 8, 100):
            add(d, "pass")
    for d in (["Negation", ["Negation", fam.X]], ["Multiply", ["Exponential", fam.X], ["Exponential", fam.Y]]):
        add(d, "pass", twin="oracle+1")
    for i, j in enumerate(js):
        j["id"] = f"{PROP}-{i}"
    return js


def prepare(spec, ctx):      # noqa: F811  (adds the coordinates of the pre-evaluation point)
    common.prepare(spec, ctx)
    if spec.get("pre_eval"):
        from symreal import core as sx
        for v in rt.variables_of(spec["d"]):
            c = z3.Real("q_" + v)
            ctx.consts["q_" + v] = c
            ctx.env["q_" + v] = sx.SymReal(c)


def vcs(spec, ctx, outs):
    res = []
    twin = bool(spec.get("twin"))
    # outs[0] = input.at(p); outs[1] = the simplification itself (must not raise); rest = forms evaluated at p
    simp = outs[1]
    if simp["kind"] != "value":
        res.append(common.kind_vc("simplification-does-not-raise", ctx, simp, z3.BoolVal(False), 1))
        return res
    first_form = 2
    if spec.get("reuse_after_giveup"):
        if outs[2]["kind"] != "value":
            res.append(common.kind_vc("simplification-after-give-up-does-not-raise", ctx, outs[2], z3.BoolVal(False), 2))
            return res
        first_form = 3
    if spec.get("again"):
        if outs[2]["kind"] != "value":
            res.append(common.kind_vc("second-simplification-does-not-raise", ctx, outs[2], z3.BoolVal(False), 2))
            return res
        first_form = 3
    n_forms = len(outs) - first_form
    for k in range(first_form, len(outs)):
        out = outs[k]
        label = "final-form" if k == len(outs) - 1 else f"step"
        if spec.get("what") == "giveup":
            label = "partially-reduced-form"
        guard = ctx.indom
        if spec.get("nonzero") and k == len(outs) - 1:
            guard = z3.And(ctx.indom, ctx.ref != 0)      # Reciprocal(Reciprocal(e)) is e wherever e is defined and non-zero
        if out["kind"] == "value":
            res.append(common.eq_value_vc(f"{label}:same-value-on-input-domain", ctx, out, ctx.ref, guard, k, twin=twin))
        elif out["kind"] == "DomainError":
            v = common.kind_vc(f"{label}:defined-wherever-input-is", ctx, out, z3.Not(guard), k)
            v.info["form_index"] = k - first_form
            v.info["forms"] = n_forms
            res.append(v)
        else:
            res.append(common.kind_vc(f"{label}:no-foreign-outcome-on-input-domain", ctx, out, z3.Not(ctx.indom), k))
    return res
