"""C04 - reverse-mode gradient equals the true partials for every variable at once (DESIGN.md 6, C04)."""
import z3
import mpmath

import families as fam
import oracle as orc
from harness import routes as rt
from harness.run import VC
from props import common
from props.common import prepare  # noqa: F401

PROP = "C04"
LEVEL_TEXT = ("Bounded symbolic execution of the real reverse-mode code (LocatedDifferential / Differential.at, accumulators): one "
              "exploration per tree returns the components for EVERY variable of the tree plus an absent one; per path and per variable "
              "z3 decides 'component == textbook partial of the denotation' for ALL points of the domain (sums over repeated variables "
              "and shared nodes appear as sums in the term).")
BOUNDS = {
    "quick": {"families": "F1 node lemmas over children A (all share x; extra variables a_i,b_i) and V, the same nodes under an arbitrary incoming multiplier, DAG sharing (same node under two "
              "parents), products of 3-4 possibly-zero factors, stratified F2, symbolic base/constants, warm caches, both entry points",
              "outside": "deeper trees, n>7, arity>4, rounding size, overflow/underflow"},
    "thorough": {"families": "as quick with n<=7, arity<=4, every 2nd F2 tree, F3 chains (every third), seeded F5",
                 "outside": "deeper trees, n>7, arity>4, rounding size, overflow/underflow"},
}
OPTS = {"quick": {"timeout_ms": 10000}, "thorough": {"timeout_ms": 20000, "job_budget_s": 120}}
ASSUMPTIONS = ["the reference derivative is a textbook differentiator over the denotation term (validated against sympy and finite differences at self-test)"]


def jobs(tier, seed):
    js = []

    def add(d, routes=("rev_all",), **kw):
        vs = rt.variables_of(d)
        js.append({"mode": "route", "d": d, "routes": list(routes), "vars": vs + ["absent"], **kw})

    for d in fam.f1(fam.A, tier):
        add(d, routes=["rev_all"])
    for d in fam.f1(fam.V, tier):
        add(d, routes=["diff_at_all"])
    # reverse-mode induction step: the node receives an ARBITRARY incoming multiplier m0 (it sits under a product with a free variable)
    under = fam.f1(fam.A, "quick")
    for d in (under if tier == "thorough" else under[::2]):
        add(["Multiply", ["var", "m0"], d], routes=["rev_all"])
    for d in fam.f1_shared(tier):
        add(d, routes=["rev_all", "diff_at_all"])
        add(d, pre=[["eval", "root", "q"]])
        add(d, pre=[["fwd", "root", "q"]], var="x")
        if tier == "thorough" or not any(k in str(d) for k in ("NthRoot", "Power", "Logarithm")):     # (the costly trees keep their plain warm-cache variants)
            for i, pre in enumerate(fam.sandwiches(d, second="fwd")):
                add(d, pre=pre, var="x")
                if i in (0, 3):
                    add(d, routes=["diff_at_all"], pre=pre, var="x")
    s = ["share", "s", ["Add", fam.X, fam.Y]]
    extra = [["Multiply", fam.X, fam.Y, fam.Z, fam.X], ["Multiply", fam.X, ["Sine", fam.Y], ["Minus", fam.Z, fam.X]],
             ["Multiply", ["Add", fam.X, fam.Y], ["Add", fam.X, fam.Y]], ["Add", ["Multiply", s, s], ["Exponential", s], ["Divide", fam.X, s]],
             ["Divide", ["Multiply", fam.X, fam.Y], ["Add", ["NthPower", fam.X, 2], ["NthPower", fam.Y, 2]]],
             ["Power", ["Add", fam.X, fam.Y], ["Multiply", ["const", 2], fam.X]], ["Power", fam.X, fam.Y],
             ["Logarithm", ["Multiply", fam.X, fam.X, fam.Y]], ["NthRoot", ["Multiply", fam.X, ["Minus", fam.Y, fam.X]], 3]]
    for d in extra:
        add(d, routes=["rev_all", "diff_at_all"])
        add(d, pre=[["eval", "root", "q"]])
        add(d, pre=[["rev", "root", "q"]], var="x")
        if tier == "thorough" or not any(k in str(d) for k in ("NthRoot", "Power", "Logarithm")):
            for pre in fam.sandwiches(d, second="rev")[:3]:
                add(d, pre=pre, var="x")
    # one long-lived Differential located at another point first (a table keyed by hash(point) is explored on its colliding path)
    for d in extra[:5]:
        if len(rt.variables_of(d)) == 2:
            add(d, routes=["diff_at_all"], reuse_seq=[["obj", "q"]])
            add(d, routes=["diff_at_all"], reuse_seq=[["comp", "q"]])
            add(d, routes=["diff_at_all"], reuse_seq=[["comp", ""], ["expr", "rev", "q"]])
            add(d, routes=["diff_at_early_all"], reuse_seq=[["obj", "q"], ["expr", "eval", "q"]])
    add(["Exponential", fam.A(1), ["sym", "b"]], assume=[["gt", "b", 0]])
    add(["Logarithm", fam.A(1), ["sym", "b"]], assume=[["gt", "b", 0], ["ne", "b", 1]])
    add(["Multiply", fam.C(1), fam.A(1), fam.C(2)])
    add(["Power", fam.C(1), fam.A(1)])
    add(["Power", fam.A(1), fam.C(1)])
    f2 = fam.f2_quick(6, 3) if tier == "quick" else fam.f2("thorough")[::2]
    for d in f2:
        add(d)
    for d in f2[::13]:
        add(d, pre=[["eval", "root", "q"]])
    if tier == "thorough":
        for d in fam.f3(tier)[::3]:
            add(d)
        for d in fam.f5(seed + 3, 120):
            add(d)
    for d in (["Multiply", fam.A(1), fam.A(2)], ["NthRoot", fam.A(1), 3], ["Power", fam.V(1), fam.V(2)]):
        add(d, twin="oracle+1")
    for i, j in enumerate(js):
        j["id"] = f"{PROP}-{i}"
    return js


def vcs(spec, ctx, outs):
    res = []
    n_routes = len(spec["routes"])
    twin = bool(spec.get("twin"))
    for k in range(n_routes):
        idx = len(outs) - n_routes + k
        out = outs[idx]
        rname = spec["routes"][k]
        if out["kind"] == "value":
            vals = out["value"]
            if not isinstance(vals, list) or len(vals) != len(spec["vars"]):
                res.append(common.kind_vc(f"components-list[{rname}]", ctx, out, z3.BoolVal(False), idx))
                continue
            for pos, w in enumerate(spec["vars"]):
                x = ctx.zenv.get(w)
                if x is None:
                    x = z3.Real(w)
                ref = orc.ddx(ctx.ref, x)
                if twin:
                    ref = ref + 1
                try:
                    t = common.sx.R(vals[pos])
                except common.sx.Unsupported:
                    res.append(common.kind_vc(f"component-is-number[{rname},{w}]", ctx, out, z3.BoolVal(False), idx))
                    continue
                g = common.ground_compare(t, ref) if not twin else None
                if g is not None and z3.is_true(z3.simplify(ctx.indom)):
                    res.append(VC(f"component==true-partial[{rname}]:ground", None, None, {"failed": not g, "var": w}))
                    continue
                res.append(VC(f"component==true-partial[{rname}]", z3.And(ctx.indom, t != ref),
                              _judge(ctx, idx, pos, ref, t), {"var": w, "candidates": common.HASH_COLLISION_POINTS if spec.get("reuse_seq") else []}))
        elif common.strange(out):
            res.append(common.kind_vc(f"no-foreign-outcome-on-domain[{rname}]", ctx, out, z3.Not(ctx.indom), idx))
    return res


def _judge(ctx, idx, pos, ref, t=None):
    def judge(val, couts):
        val = common.complete_val(ctx, val)
        o = couts[idx]
        if o["kind"] != "value" or not o.get("mp_list"):
            return None
        if not common.mp_indom(ctx, val):
            return None
        r = common.mp_ref(ref, val)
        if r is None:
            return None
        got = o["mp_list"][pos]
        if not orc.close(got, r):
            return f"component {pos} is {mpmath.nstr(got, 17)} but the true partial is {mpmath.nstr(r, 17)}"
        te = common.mp_ref(t, val) if t is not None else None
        if te is not None and not common.rel_close(te, r) and common.rel_close(got, te, rel=1e-6):
            return (f"component {pos} is {mpmath.nstr(got, 17)} (the path's formula gives {mpmath.nstr(te, 17)} in exact arithmetic) but the true "
                    f"partial is {mpmath.nstr(r, 17)}")
        return None
    return judge
