"""C10 - operations never change their operands (DESIGN.md 6, C10)."""
import z3

from symreal import core as sx
from harness.run import VC
from props import common
from props import c09

PROP = "C10"
NEUTRALISE = ("D3",)
LEVEL_TEXT = ("Bounded symbolic execution of operation histories on pools with shared sub-expression objects (as C09), but the compared objects "
              "are the OPERANDS: after the history every pooled expression and every derivative object created on the way must still be == to, "
              "print as, hash as and (for ALL points, decided by z3) evaluate like its twin from a pool on which only the creating operations ran; "
              "expressions handed out earlier are re-checked after the originals were used further. The copy-on-write list helpers are executed "
              "with a symbolic integer index (case split) against their specification; Point(**kw) against later mutation of the caller's dict.")
BOUNDS = {
    "quick": {"histories": "length 1-4 over the C09 alphabet (evaluation, all derivative routes, as_expression forward/reverse twice in a row, _normalize twice, "
              "constructor side effects, long-lived objects), 6 pools with shared nodes; list helpers: length 0-4, index in [-8, 8] plus out-of-range paths",
              "outside": "longer histories, larger pools, list length > 4"},
    "thorough": {"histories": "as quick, every history of the C09 thorough selection", "outside": "longer histories, larger pools, list length > 4"},
}
ASSUMPTIONS = ["printing under the symbolic engine renders lifted constants through the same code path for both pools"]
OPTS = {"quick": {"timeout_ms": 8000, "job_budget_s": 40, "max_paths": 1500}, "thorough": {"timeout_ms": 20000, "job_budget_s": 200, "max_paths": 3000}}

MUTATORS = ["norm", "asexp", "asexp_rev", "early", "diff_early", "embed", "at", "fwd", "rev"]


def jobs(tier, seed):
    js = []
    pools = ["A", "B", "C", "D", "E", "F", "G", "H", "I", "J", "K", "L", "M"]
    hists = []
    for pool in pools:
        for t in ("e1", "e2", "e3", "s"):
            for k in MUTATORS:
                h = [c09.op(k, t, "q")]
                hists.append({"pool": pool, "hist": h})
            # the operand was evaluated at p before, then its caches were refilled at q through another entry point
            hists.append({"pool": pool, "hist": [["at", t, "p"], ["rev", t, "q"]]})
            hists.append({"pool": pool, "hist": [["at", t, "p"], ["fwd", t, "q"]]})
            hists.append({"pool": pool, "hist": [["at", "s", "p"], ["at", "e1", "q"], ["embed", t]]})
            # a second simplification touching the same objects (flags are set by the first one)
            hists.append({"pool": pool, "hist": [["norm", t], ["norm", t]]})
            hists.append({"pool": pool, "hist": [["norm", t], ["norm", t], ["norm", t], ["norm", t]]})
            hists.append({"pool": pool, "hist": [["asexp", t], ["asexp", t], ["asexp", t], ["asexp_rev", t], ["asexp_rev", t]]})
            hists.append({"pool": pool, "hist": [["diff_early", t, "q"], ["diff_early", t, "q"], ["early", t, "q"], ["early", t, "q"]]})
            hists.append({"pool": pool, "hist": [["asexp", t], ["asexp_rev", t]]})
            hists.append({"pool": pool, "hist": [["asexp", t], ["asexp", "e1" if t != "e1" else "e2"], ["asexp_rev", t]]})
            hists.append({"pool": pool, "hist": [["mk", "P", "partial_early", t], ["mk", "Q", "diff_early", t], ["q", "P", "q"], ["q", "Q", "p"]]})
            hists.append({"pool": pool, "hist": [["mk", "P", "partial", t], ["q", "P", "q"], ["qasexp", "P"], ["q", "P", "p"]]})
            hists.append({"pool": pool, "hist": [["mk", "P", "diff_early", t], ["qat", "P", "q"]]})
            hists.append({"pool": pool, "hist": [["mk", "P", "diff", t], ["q", "P", "q"]]})
            hists.append({"pool": pool, "hist": [["mk", "P", "diff", t], ["qasexp", "P"]]})
            hists.append({"pool": pool, "hist": [["mk", "P", "diff_early", t], ["mk", "Q", "diff", t], ["qat", "P", "q"], ["qat", "Q", "q"], ["qat", "P", "p"]]})
            hists.append({"pool": pool, "hist": [["norm", t], ["asexp", t]], "keep": ["asexp", t]})
            hists.append({"pool": pool, "hist": [["asexp", t], ["norm", t], ["at", t, "q"]], "keep": ["norm", t]})
    always = []
    for t in ("e1", "e2", "e3", "n"):
        # the SAME object simplified / differentiated symbolically four and five times (in-place edits of a flagged object show late)
        always.append({"pool": "M", "hist": [["norm", t]] * 4})
        always.append({"pool": "M", "hist": [["norm", t]] * 5 + [["asexp", t]]})
        always.append({"pool": "M", "hist": [["asexp", t]] * 3 + [["asexp_rev", t]] * 2})
        always.append({"pool": "M", "hist": [["diff_early", t, "q"]] * 2 + [["norm", t]] * 2})
        always.append({"pool": "H", "hist": [["norm", t if t != "n" else "m"]] * 5})
    if tier == "quick":
        hists = hists[::3] + [h for h in hists if len(h["hist"]) >= 2][1::4] + always
    else:
        hists += always + [{"pool": s["pool"], "hist": s["hist"]} for s in c09.long_lived()[::2] + c09.composed()]
    for t in ("e1", "e3"):      # inside the region of known finding D3 (a late Partial switches to the mis-simplified derivative after as_expression())
        hists.append({"pool": "F", "hist": [["mk", "P", "partial", t], ["q", "P", "q"], ["qasexp", "P"], ["q", "P", "p"]]})
    for h in hists:
        js.append({"mode": "operands", **h})
    for n in range(0, 5):
        for fn in ("without", "updated"):
            js.append({"mode": "listutil", "fn": fn, "length": n})
    js.append({"mode": "pointdict"})
    js.append({"mode": "operands", "pool": "A", "hist": [["at", "e1", "q"]], "twin": "value+1"})
    js.append({"mode": "listutil", "fn": "without", "length": 3, "twin": "wrong-spec"})
    for i, j in enumerate(js):
        j["id"] = f"{PROP}-{i}"
    return js


def prepare(spec, ctx):
    ctx.consts, ctx.env, ctx.int_names, ctx.assume = {}, {}, set(), []
    sx.PARAM_NAMES.clear()
    if spec["mode"] == "listutil":
        c = z3.Int("i")
        ctx.consts["i"] = c
        ctx.env["i"] = sx.SymInt(c)
        ctx.int_names = {"i"}
        return
    names = ("p_x", "p_y", "q_x", "q_y") if spec["mode"] == "operands" else ("x", "y", "x2")
    for n in names:
        c = z3.Real(n)
        ctx.consts[n] = c
        ctx.env[n] = sx.SymReal(c)


def must_be_true(name, outs, idx):
    o = outs[idx]
    if o["kind"] == "value" and o["value"] is True:
        return VC(name + ":holds", None, None, {"failed": False})

    def judge(val, couts):
        c = couts[idx]
        return None if (c["kind"] == "value" and c.get("value") is True) else f"{name}: {c.get('kind')} {c.get('value')!r}"
    return VC(name, z3.BoolVal(True), judge, {})


def same_text(name, outs, i, j, concrete_too=False):
    a, b = outs[i], outs[j]
    if a["kind"] == b["kind"] == "value" and a["value"] == b["value"]:
        if concrete_too:
            def cj(val, couts):
                x, y = couts[i], couts[j]
                return None if (x["kind"] == y["kind"] and x.get("value") == y.get("value")) else f"{name}: {str(x.get('value'))[:140]} vs {str(y.get('value'))[:140]}"
            return VC(name + ":real-number-formatting", z3.BoolVal(True), cj, {"concrete_only": True})
        return VC(name + ":identical", None, None, {"failed": False})

    def judge(val, couts):
        x, y = couts[i], couts[j]
        if x["kind"] == y["kind"] and x.get("value") == y.get("value"):
            return None
        return f"{name}: {str(x.get('value'))[:140]} vs {str(y.get('value'))[:140]}"
    return VC(name, z3.BoolVal(True), judge, {"a": str(a.get("value"))[:160], "b": str(b.get("value"))[:160]})


def list_spec(spec, i_val):
    n = spec["length"]
    entries = [f"e{k}" for k in range(n)]
    if i_val >= n or i_val < -n:
        return entries
    j = i_val if i_val >= 0 else n + i_val
    if spec["fn"] == "without":
        return entries[:j] + entries[j + 1:]
    return entries[:j] + ["NEW"] + entries[j + 1:]


def vcs(spec, ctx, outs):
    res = []
    if spec["mode"] == "listutil":
        o = outs[0]
        i = ctx.consts["i"]
        n = spec["length"]
        if o["kind"] != "value":
            res.append(common.kind_vc("list-helper-does-not-raise", ctx, o, z3.BoolVal(False), 0))
        else:
            got = list(o["value"])
            # the result must equal the specification for EVERY index value consistent with this path
            cases = []
            for k in list(range(-n - 1, n + 1)):
                cases.append(z3.And(i == k, z3.BoolVal(got != list_spec(spec, k) or bool(spec.get("twin")))))
            cases.append(z3.And(z3.Or(i > n, i < -n - 1), z3.BoolVal(got != list_spec(spec, n + 5) or bool(spec.get("twin")))))

            def judge(val, couts):
                c = couts[0]
                iv = int(val["i"])
                exp = list_spec(spec, iv)
                if spec.get("twin"):
                    exp = exp + ["x"]
                if c["kind"] != "value" or list(c.get("value") or []) != exp:
                    return f"index {iv}: got {c.get('value')!r}, specification says {exp!r}"
                return None
            res.append(VC("list-helper==specification", z3.Or(cases), judge, {}))
        res.append(must_be_true("input-list-unchanged", outs, 1))
        res.append(must_be_true("result-is-a-new-list", outs, 2))
        return res
    if spec["mode"] == "pointdict":
        v = common.agree_vc("point-unaffected-by-later-dict-mutation", ctx, outs, 0, 1)
        res.append(v if v is not None else VC("point-unaffected-by-later-dict-mutation:identical", None, None, {"failed": False}))
        res.append(must_be_true("point-still-equals-and-prints-as-original", outs, 2))
        return res
    for g in range(0, len(outs), 7):
        res.append(same_text("operand-prints-as-fresh-copy", outs, g, g + 1, concrete_too=(spec["pool"] == "J" and g == 0)))
        if spec["pool"] == "J" and g == 0:
            res.append(same_text("operand-prints-as-fresh-copy", outs, g, g + 1))
        res.append(must_be_true("operand-equals-and-hashes-as-fresh-copy", outs, g + 2))
        v = common.agree_vc("operand-evaluates-like-fresh-copy", ctx, outs, g + 3, g + 4, twin=bool(spec.get("twin")) and g == 0)
        res.append(v if v is not None else VC("operand-evaluates-like-fresh-copy:identical", None, None, {"failed": False}))
        v = common.agree_vc("operand-accepts-bare-number-like-fresh-copy", ctx, outs, g + 5, g + 6)
        res.append(v if v is not None else VC("operand-accepts-bare-number-like-fresh-copy:identical", None, None, {"failed": False}))
    return res
