"""C15 - operator syntax builds exactly the named constructors (DESIGN.md 6, C15)."""
import itertools

import z3

from symreal import core as sx
from harness import modes
from harness.run import VC
from props import common
from props import c16
from props.c16 import prepare  # noqa: F401

PROP = "C15"
LEVEL_TEXT = ("Symbolic execution of the real operator methods: the exponent of ** is a solver variable (an arbitrary integer and an arbitrary real): per "
              "path z3 decides 'x ** k builds NthPower(x, k) with n stored as an int equal to k exactly when k is integral and >= 1, and raises "
              "otherwise' for ALL k. Unary/binary operators are compared with the constructor-built twin by the library's == (both directions), by class "
              "and by printed form, for operands of every constructor kind including a symbolic constant (so that no value-dependent simplification or "
              "reordering can hide); non-expression operands on either side must raise.")
BOUNDS = {"quick": {"operands": "20 operand expressions (every constructor kind, constants 0/1/2/3.0 and a symbolic constant) in all pairs for + - * / ** and unary -, plus 6 USED "
                    "operands (operands of expressions that were differentiated early, simplified three times, hashed, printed and evaluated before); "
                    "exponent: all integers and all reals (symbolic) + 14 concrete spellings; 9 operator sites x 11 foreign objects",
                    "outside": "operands outside the list (the operator methods do not inspect their operands beyond isinstance)"}}
BOUNDS["thorough"] = BOUNDS["quick"]
ASSUMPTIONS = []
OPTS = {"quick": {"timeout_ms": 10000}, "thorough": {"timeout_ms": 30000}}

OPERANDS = ["x", "y", "c", "zero", "one", "two", "three_f", "neg", "sum", "sum0", "prod", "rec", "pw", "rt", "ex", "lg", "sin", "min", "div", "pwr"]
USED = ["used_neg", "used_neg2", "used_sum", "used_pw", "used_rec", "used_prod"]     # operands with a history (harness.modes.operand_exprs)
SITES_OP = ["x+f", "f+x", "x-f", "f-x", "x*f", "f*x", "x/f", "f/x", "f**x"]
EXPS = [1, 2, 7, 1.0, 3.0, 12.0, 2.5, 0.5, 0, -1, -2.0, 0.0, "None", "'2'", "()", "[]", "Point"]


def jobs(tier, seed):
    js = [{"mode": "param", "what": "pow", "sort": "int"}, {"mode": "param", "what": "pow", "sort": "real"}]
    pairs = list(itertools.product(OPERANDS, OPERANDS))
    if tier == "quick":
        pairs = [p for i, p in enumerate(pairs) if i % 3 == 0 or p[0] in ("c", "zero", "one") or p[1] in ("c", "zero", "one", "two", "three_f")]
    for a, b in pairs:
        for op in ("add", "sub", "mul", "div", "pow"):
            js.append({"mode": "operators", "op": op, "a": a, "b": b})
    for a in OPERANDS + USED:
        js.append({"mode": "operators", "op": "neg", "a": a, "b": a})
    for a in USED:
        for b in USED + ["x", "two", "sum"]:
            for op in ("add", "sub", "mul", "div", "pow"):
                js.append({"mode": "operators", "op": op, "a": a, "b": b})
                if b not in USED:
                    js.append({"mode": "operators", "op": op, "a": b, "b": a})
    for site in SITES_OP:
        for f in modes.FOREIGN:
            js.append({"mode": "reject", "site": site, "foreign": f})
    for e in EXPS:
        js.append({"mode": "powexp", "exp": e})
    # the same operand / exponent is offered again: the verdict must not depend on earlier attempts
    js += [{"mode": "param", "what": "pow", "sort": "int", "attempts": 3}, {"mode": "param", "what": "pow", "sort": "real", "attempts": 3}]
    for site in SITES_OP:
        for f in modes.FOREIGN[::2]:
            js.append({"mode": "reject", "site": site, "foreign": f, "attempts": 2})
    js.append({"mode": "param", "what": "pow", "sort": "real", "twin": "accept-all"})
    js.append({"mode": "operators", "op": "add", "a": "x", "b": "y", "twin": "wrong-class"})
    for i, j in enumerate(js):
        j["id"] = f"{PROP}-{i}"
    return js


WANT = {"neg": "Negation", "add": "Add", "sub": "Minus", "mul": "Multiply", "div": "Divide", "pow": "Power"}


def vcs(spec, ctx, outs):
    if spec["mode"] == "param":
        return c16.param_vcs(spec, ctx, outs)
    if spec["mode"] == "reject":
        return c16.reject_vcs(spec, ctx, outs)
    res = []
    if spec["mode"] == "operators":
        want = WANT[spec["op"]] if not spec.get("twin") else "Multiply"
        o = outs[0]
        if o["kind"] != "value" or o["value"] != want:
            res.append(VC(f"operator-{spec['op']}-builds-{want}", z3.BoolVal(True),
                          lambda val, couts: (None if couts[0]["kind"] == "value" and couts[0].get("value") == want
                                              else f"built {couts[0].get('value', couts[0].get('kind'))} instead of {want}"), {}))
            return res
        res.append(VC(f"operator-{spec['op']}-builds-{want}:holds", None, None, {"failed": False}))
        res.append(c16._true_vc(f"operator-{spec['op']}==constructor-twin", outs, 1))
        a, b = outs[2], outs[3]
        if a["kind"] == b["kind"] == "value" and a["value"] == b["value"]:
            res.append(VC("operator-prints-as-constructor-twin:identical", None, None, {"failed": False}))
        else:
            res.append(VC("operator-prints-as-constructor-twin", z3.BoolVal(True),
                          lambda val, couts: (None if couts[2].get("value") == couts[3].get("value") else f"{couts[2].get('value')} vs {couts[3].get('value')}"), {}))
        return res
    if spec["mode"] == "powexp":
        e = spec["exp"]
        legal = isinstance(e, (int, float)) and not isinstance(e, bool) and float(e).is_integer() and e >= 1
        o = outs[0]
        name = f"x**{e!r}"
        if legal:
            okk = o["kind"] == "value" and o["value"] == "NthPower" and outs[2].get("value") is True and outs[3].get("value") is True \
                and outs[1]["kind"] == "value" and sx.ground(sx.R(outs[1]["value"])) == int(e)
            if okk:
                return [VC(name + ":NthPower-with-int-n", None, None, {"failed": False})]
            return [VC(name + ":NthPower-with-int-n", z3.BoolVal(True),
                       lambda val, couts: (None if (couts[0].get("value") == "NthPower" and couts[2].get("value") is True and couts[3].get("value") is True
                                                    and couts[1].get("value") == int(e)) else f"{name}: {couts[0]} n={couts[1].get('value')!r}"), {})]
        if o["kind"] != "value":
            return [VC(name + ":rejected", None, None, {"failed": False, "how": o["kind"]})]
        return [VC(name + ":rejected", z3.BoolVal(True), lambda val, couts: (f"{name} accepted: {couts[0].get('value')}" if couts[0]["kind"] == "value" else None), {})]
    return res
