"""C16 - ill-formed expressions are rejected at construction (DESIGN.md 6, C16) - also hosts the shared construction lemmas of C15."""
import z3

from symreal import core as sx
from harness import modes
from harness.run import VC
from props import common

PROP = "C16"
LEVEL_TEXT = ("Symbolic execution of the real constructor code with the parameter as a solver variable: n as an arbitrary integer and as an arbitrary "
              "real (integral or not, any sign), base as an arbitrary real; per path z3 decides 'accepted <=> documented range' and 'stored parameter == "
              "given value, stored as an int' for ALL parameter values. Names: the compiled validation pattern is read from the running code, translated to "
              "a z3 regular expression and proved equivalent (as a language, strings up to the bound) to 'non-empty string of word characters'; the "
              "constructor is then executed on solver-produced names from both sides. Non-expression operands: every constructor position x foreign object "
              "(enumerated).")
BOUNDS = {"quick": {"parameters": "n: all integers and all reals (symbolic); base: all reals (symbolic); names: regular-language equivalence over ASCII + one opaque "
                    "non-ASCII word-character class, witnesses of length <= 8; operands: 29 constructor/operator sites x 11 foreign objects",
                    "outside": "Unicode tables behind \\\\w (one opaque class), names longer than the witnesses, foreign objects outside the list"},
          "thorough": {"parameters": "as quick"}}
BOUNDS["thorough"] = dict(BOUNDS["quick"], parameters=BOUNDS["quick"]["parameters"] + "; names also with witnesses of length <= 14")
ASSUMPTIONS = ["Python's re module implements the translated fragment (\\\\A, \\\\Z, \\\\w, *, +, ^, $, character classes) as documented; other pattern syntax makes the lemma inconclusive"]
OPTS = {"quick": {"timeout_ms": 10000}, "thorough": {"timeout_ms": 30000}}

SITES_CTOR = ["Negation", "Reciprocal", "Sine", "Cosine", "NthPower", "NthRoot", "Exponential", "Logarithm", "Minus0", "Minus1", "Divide0", "Divide1",
              "Power0", "Power1", "Add0", "Add1", "Add2", "Multiply0", "Multiply1", "Multiply2"]


def param_jobs():
    js = []
    for what in ("NthPower", "NthRoot"):
        js.append({"mode": "param", "what": what, "sort": "int"})
        js.append({"mode": "param", "what": what, "sort": "real"})
    for what in ("Exponential", "Logarithm", "Constant"):
        js.append({"mode": "param", "what": what, "sort": "real"})
    return js


def jobs(tier, seed):
    js = param_jobs()
    for site in SITES_CTOR:
        for f in modes.FOREIGN:
            js.append({"mode": "reject", "site": site, "foreign": f})
    js.append({"mode": "names"})
    # the same argument is offered again (third attempt): a verdict remembered from an earlier attempt must still be the right one
    js.append({"mode": "names", "attempts": 3})
    js += [dict(j, attempts=3) for j in param_jobs()]
    for site in SITES_CTOR:
        for f in modes.FOREIGN[::2]:
            js.append({"mode": "reject", "site": site, "foreign": f, "attempts": 2})
    if tier == "thorough":
        js.append({"mode": "names", "maxlen": 14})
    js.append({"mode": "param", "what": "NthPower", "sort": "real", "twin": "accept-all"})
    js.append({"mode": "param", "what": "Logarithm", "sort": "real", "twin": "accept-all"})
    for i, j in enumerate(js):
        j["id"] = f"{PROP}-{i}"
    return js


def prepare(spec, ctx):
    ctx.consts, ctx.env, ctx.int_names, ctx.assume = {}, {}, set(), []
    sx.PARAM_NAMES.clear()
    if spec["mode"] in ("param",):
        if spec.get("sort") == "int":
            c = z3.Int("k")
            ctx.env["k"] = sx.SymInt(c)
            ctx.int_names = {"k"}
        else:
            c = z3.Real("k")
            ctx.env["k"] = sx.SymReal(c)
        ctx.consts["k"] = c
    if spec["mode"] == "operators":
        c = z3.Real("c")
        ctx.consts["c"] = c
        ctx.env["c"] = sx.SymReal(c)
    if spec["mode"] == "names":
        from props import names
        names.prepare(spec, ctx)


def documented_range(what, k):
    if what in ("NthPower", "NthRoot", "pow"):
        return z3.And(z3.IsInt(k), k >= 1)
    if what == "Exponential":
        return k > 0
    if what == "Logarithm":
        return z3.And(k > 0, k != 1)
    return z3.BoolVal(True)


def param_vcs(spec, ctx, outs):
    res = []
    what = spec["what"]
    c = ctx.consts["k"]
    k = z3.ToReal(c) if z3.is_int(c) else c
    ok = documented_range(what, k)
    if spec.get("twin"):
        ok = z3.BoolVal(True)
    o = outs[0]
    want_class = {"pow": "NthPower"}.get(what, what)

    def jd(pred_name, pred):
        def judge(val, couts):
            return pred(val, couts)
        return judge
    if o["kind"] == "value":
        # accepted: the parameter must be in the documented range ...
        res.append(VC(f"{what}:accepted=>in-documented-range", z3.Not(ok),
                      lambda val, couts: (f"accepted parameter {val['k']}" if couts[0]["kind"] == "value" and not _in_range(what, val["k"], spec) else None), {}))
        if o["value"] != want_class:
            res.append(common.kind_vc(f"{what}:builds-{want_class}", ctx, o, z3.BoolVal(False), 0))
        # ... and is reported back as given
        st = outs[1]
        t = common.val_term(st) if st["kind"] == "value" else None
        if t is None:
            res.append(common.kind_vc(f"{what}:parameter-reported-back", ctx, st, z3.BoolVal(False), 1))
        else:
            res.append(VC(f"{what}:stored-parameter==given", t != k,
                          lambda val, couts: (f"stored {couts[1].get('value')!r} for given {val['k']}"
                                              if couts[1]["kind"] == "value" and couts[1].get("mp") is not None and couts[1]["mp"] != val["k"] else None), {}))
        if what in ("NthPower", "NthRoot", "pow"):
            res.append(_true_vc(f"{what}:n-stored-as-int", outs, 2))
    else:
        # rejected (any exception is a rejection): the parameter must be outside the documented range
        res.append(VC(f"{what}:rejected=>outside-documented-range", ok,
                      lambda val, couts: (f"rejected parameter {val['k']} ({couts[0].get('kind')})" if couts[0]["kind"] != "value" and _in_range(what, val["k"], spec) else None),
                      {"kind": o["kind"]}))
    return res


def _in_range(what, k, spec):
    import mpmath
    if spec.get("twin"):
        return True
    if what in ("NthPower", "NthRoot", "pow"):
        return k == mpmath.floor(k) and k >= 1
    if what == "Exponential":
        return k > 0
    if what == "Logarithm":
        return k > 0 and k != 1
    return True


def _true_vc(name, outs, idx):
    o = outs[idx]
    if o["kind"] == "value" and o["value"] is True:
        return VC(name + ":holds", None, None, {"failed": False})
    return VC(name, z3.BoolVal(True),
              lambda val, couts: (None if couts[idx]["kind"] == "value" and couts[idx].get("value") is True else f"{name}: {couts[idx].get('value')!r}"), {})


def reject_vcs(spec, ctx, outs):
    o = outs[0]
    name = f"non-expression-operand-rejected[{spec['site']}]"
    if o["kind"] != "value":
        return [VC(name + ":holds", None, None, {"failed": False, "how": o["kind"]})]
    return [VC(name, z3.BoolVal(True), lambda val, couts: (f"{spec['site']} accepted {spec['foreign']}" if couts[0]["kind"] == "value" else None), {})]


def vcs(spec, ctx, outs):
    if spec["mode"] == "param":
        return param_vcs(spec, ctx, outs)
    if spec["mode"] == "reject":
        return reject_vcs(spec, ctx, outs)
    if spec["mode"] == "names":
        from props import names
        return names.vcs(spec, ctx, outs)
    return []
