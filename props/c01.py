"""C01 - evaluation returns the real-arithmetic value of the expression (DESIGN.md 6, C01)."""
import json
import re

import z3

import families as fam
import oracle as orc
from symreal import core as sx
from harness import routes as rt
from props import common
from props.common import prepare  # noqa: F401

PROP = "C01"
LEVEL_TEXT = ("Bounded symbolic execution of the real Expression.at()/_evaluate()/math_functions code on real-valued "
              "proxies: for each tree of the families below, every path of the evaluator is explored (forks at every "
              "comparison) and on each path z3 decides 'value == denotation' for ALL points of R^k at once "
              "(unsat of PC & axioms & in-domain & value != reference).")
OPTS = {"quick": {"fp_timeout_ms": 40000, "job_budget_s": 90}, "thorough": {"fp_timeout_ms": 180000, "job_budget_s": 400}}
BOUNDS = {
    "quick": {"families": "F1 node lemmas over arbitrary-valued children (all 15 constructors, n<=5, bases e/2/0.5/1, symbolic base, "
              "symbolic constant, arity 0..3), DAG sharing and equal-but-distinct twins (binary and n-ary), operands equal up to one symbolic constant, stratified F2 "
              "(parent x child kind), bare-number spelling, warm-cache variants incl. main point first / other point elsewhere / main point again; integer powers at 16 "
              "integer points (real runs, exact rational reference)",
              "variables": "<=4 symbolic coordinates", "outside": "deeper trees, n>7, arity>4, overflow/underflow, rounding size"},
    "thorough": {"families": "F1 (n<=7, arity<=4), DAG sharing, all of F2 (every parent over every level-1 child at every position), "
                 "F3 unary chains of depth 3, seeded F5 trees of 5-12 nodes, bare-number spelling, warm-cache variants",
                 "variables": "<=4 symbolic coordinates", "outside": "deeper trees, n>7, arity>4, overflow/underflow, rounding size"},
}
ASSUMPTIONS = ["integer powers (Exponential with a rational base, Power with an integer exponent) are checked for exactness by REAL runs at 16 integer points against "
               "exact rational arithmetic (not by the solver: ** over floats has no usable theory); roots, logarithms and trigonometric functions are not claimed exact",
               "Part E (dyadic exactness): on the rational fragment the code's operation trace must be the reference trace up to fp-exact identities "
               "(0+a, 1*a, a/1, commutativity of one + or *); otherwise a QF_FP query (cvc5 on z3's export) searches integer inputs and inputs k/16 with |x|<=1024 on which every reference operation "
               "is exact but the results differ (60 s, else inconclusive); ** with integer exponent and libm are trusted exact on representable results"]


def sym_param_jobs():
    out = []
    out.append({"d": ["Exponential", fam.V(1), ["sym", "b"]], "assume": [["gt", "b", 0]]})
    out.append({"d": ["Logarithm", fam.V(1), ["sym", "b"]], "assume": [["gt", "b", 0], ["ne", "b", 1]]})
    out.append({"d": ["Add", fam.C(1), fam.V(1)]})
    out.append({"d": ["Multiply", fam.C(1), fam.V(1), fam.C(2)]})
    out.append({"d": ["Power", fam.C(1), fam.V(1)]})
    out.append({"d": ["Power", fam.V(1), fam.C(1)]})
    out.append({"d": ["Divide", fam.C(1), fam.C(2)]})
    return out


_POINTS_DONE = set()


def exact_power_trees():
    X, Y = fam.X, fam.Y
    out = [["Exponential", X, b] for b in (2, 3, 5, 10, 0.5, 0.25, 4, 1)]
    out += [["Add", ["Exponential", X, 3], Y], ["Multiply", ["Exponential", X, 10], Y], ["Minus", ["Exponential", X, 10], ["const", 100]], ["Power", X, Y],
            ["Power", ["Add", X, ["const", 1]], Y], ["Divide", ["Exponential", X, 3], ["const", 4]], ["NthPower", ["Exponential", X, 3], 2],
            ["Exponential", ["Add", X, Y], 2], ["Exponential", ["Negation", X], 0.5], ["Multiply", ["Power", X, ["const", 3]], ["Exponential", Y, 5]],
            ["Power", ["const", 3], X], ["Reciprocal", ["Exponential", X, 2]]]
    return out


def near_twins():
    C1, C2, X, Y = fam.C(1), fam.C(2), fam.X, fam.Y
    return [["Add", C1, C2], ["Multiply", C1, C2, X], ["Add", ["Multiply", C1, X], ["Multiply", C2, X]], ["Multiply", ["Add", X, C1], ["Add", X, C2]],
            ["Add", ["Sine", ["Multiply", C1, X]], ["Sine", ["Multiply", C2, X]], Y], ["Minus", ["Power", X, C1], ["Power", X, C2]],
            ["Divide", ["Exponential", ["Multiply", C1, X]], ["Exponential", ["Multiply", C2, X]]]]


def jobs(tier, seed):
    js = []

    def add(d, routes=("eval",), **kw):
        js.append({"mode": "route", "d": d, "routes": list(routes), **kw})

    for d in fam.f1(fam.V, tier):
        add(d)
    for j in sym_param_jobs():
        add(j["d"], assume=j.get("assume", []))
    for d in fam.f1_shared(tier):
        add(d)
        add(d, pre=[["eval", "root", "q"]])
        keys = sorted(set(re.findall(r'"share", "(\w+)"', json.dumps(d))))
        for key in keys:
            add(d, pre=[["eval", key, "q"]])
            add(d, pre=[["eval", key, "q"], ["eval", "root", "q"]])
    # the main point first, then the caches below the root refilled elsewhere (other entry point / a shared sub-expression object), then the main point again
    extra_sw = [["Exponential", ["Multiply", fam.X, fam.Y]], ["Reciprocal", ["Add", ["NthPower", fam.X, 2], fam.Y]], ["Add", ["Logarithm", ["Multiply", fam.X, fam.X]], fam.Y]]
    for d in fam.f1_shared(tier) + extra_sw:
        for pre in fam.sandwiches(d):
            add(d, pre=pre, var="x", no_exact=True)
    # operands that are the same expression up to ONE symbolic constant (a structural comparison that is not exact would confuse them)
    for d in near_twins():
        add(d, no_exact=True)
    # integer powers at integer points: the exactness clause outside the polynomial fragment (real runs, exact rational reference)
    for d in exact_power_trees():
        add(d, no_exact=True, exact_points=True)
    # bare number in place of a point
    for d in fam.unary_variants(fam.X, tier) + [["Add", fam.X, ["const", 2]], ["Multiply", fam.X, fam.X], ["Add"], ["const", 3]]:
        add(d, routes=("eval_num",), var="x", supplied=["x"])
    for d in [["NthPower", ["share", "s", fam.X], 2], ["Sine", ["share", "s", ["Negation", fam.X]]]]:
        add(d, routes=("eval_num",), var="x", supplied=["x"], pre=[["embed", "s", None]])
        add(d, routes=("eval",), pre=[["embed", "s", None]])
    if tier == "quick":
        f2 = fam.f2_quick(6)
    else:
        f2 = fam.f2("thorough")
    for d in f2:
        add(d)
    for d in f2[::9]:
        add(d, pre=[["eval", "root", "q"]])
        add(d, pre=[["rev", "root", "q"]], var="x")
    if tier == "thorough":
        for d in fam.f3(tier)[::3]:
            add(d)
        for d in fam.f5(seed, 150):
            add(d)
    # reachability twins (falsified oracle: must be refuted and replay)
    for d in (["Add", fam.V(1), fam.V(2)], ["NthRoot", fam.V(1), 3], ["Logarithm", fam.V(1), 2]):
        add(d, twin="oracle+1")
    for i, j in enumerate(js):
        j["id"] = f"{PROP}-{i}"
    return js


def exactness_vc(spec, ctx, out, idx):
    """Part E: on small dyadic inputs for which every reference operation is exact, the code's float result is exactly that number"""
    import fractions
    from symreal import fpexact as fx
    from harness.run import VC
    t = common.val_term(out)
    if t is None or spec.get("twin") or spec.get("assume") or spec.get("no_exact"):     # (no_exact: history variants of trees whose plain job carries Part E)
        return None
    if not (fx.is_rational_fragment(t) and fx.is_rational_fragment(ctx.ref)):
        return None
    if fx.key(t) == fx.key(ctx.ref):
        return VC("dyadic-exactness:identical-float-operation-trace", None, None, {"failed": False})
    names = sorted(set(ctx.consts.keys()))
    ref = ctx.ref

    def judge(val, couts):
        o = couts[idx]
        if o["kind"] != "value" or o.get("vtype") not in ("float", "int"):
            return None
        got = fractions.Fraction(float.fromhex(o["value"])) if o["vtype"] == "float" else fractions.Fraction(int(o["value"]))
        sub = [(z3.Real(n), sx.Q(fractions.Fraction(float(val[n])))) for n in names]
        try:
            ex = z3.simplify(z3.substitute(ref, *sub))
            exact = fractions.Fraction(ex.numerator_as_long(), ex.denominator_as_long())
        except Exception:  # noqa
            return None
        if got != exact:
            return f"returned {float(got)!r} but the exact value {exact} is representable and every reference operation is exact on these dyadic inputs"
        return None
    v = VC("dyadic-exactness", None, judge, {"code_trace": str(z3.simplify(t))[:200]})
    pc = list(ctx.eng.pc)
    tmo = ctx.opts.get("fp_timeout_ms", 20000)
    v.solve = lambda: fx.find_inexact_witness(t, ref, names, timeout_ms=tmo, pc=pc)
    return v


def exact_eval(d, val):
    """exact value (a Fraction) of a descriptor at a point, or None unless EVERY intermediate is a small integer / dyadic rational that
    rational arithmetic and integer powers produce exactly (the exactness clause of the property beyond the polynomial fragment of Part E)"""
    import fractions
    F = fractions.Fraction

    def small(q):
        if q is None:
            return None
        den = q.denominator
        return q if (den & (den - 1)) == 0 and den <= 2 ** 20 and abs(q.numerator) < 2 ** 40 else None

    def ev(d):
        k = d[0]
        if k == "share":
            return ev(d[2])
        if k == "var":
            return small(F(val[d[1]]))
        if k == "const":
            return small(F(d[1])) if isinstance(d[1], (int, float)) else None
        args = [ev(c) for c in d[1:] if isinstance(c, list) and c and isinstance(c[0], str) and c[0] in rt.ALL_KINDS + ("share",)]
        if any(a is None for a in args):
            return None
        if k == "Add":
            return small(sum(args, F(0)))
        if k == "Multiply":
            r = F(1)
            for a in args:
                r = small(r * a)
                if r is None:
                    return None
            return r
        if k == "Minus":
            return small(args[0] - args[1])
        if k == "Negation":
            return -args[0]
        if k == "Divide":
            return small(args[0] / args[1]) if args[1] != 0 else None
        if k == "Reciprocal":
            return small(1 / args[0]) if args[0] != 0 else None
        if k == "NthPower":
            return small(args[0] ** int(d[2])) if abs(args[0]) < 2 ** 10 else None
        if k == "Exponential":
            if len(d) < 3 or not isinstance(d[2], (int, float)) or args[0].denominator != 1 or abs(args[0]) > 30:
                return None
            return small(F(d[2]) ** int(args[0]))
        if k == "Power":
            if args[0] <= 0 or args[1].denominator != 1 or abs(args[1]) > 30:
                return None
            return small(args[0] ** int(args[1]))
        return None            # roots, logarithms, sine, cosine: not exact in general
    try:
        return ev(d)
    except (OverflowError, ZeroDivisionError, ValueError):
        return None


INTEGER_POINTS = [[2, 3], [3, 2], [5, 1], [0, 0], [-1, 2], [-2, 3], [1, 5], [10, 2], [4, -2], [-3, 0], [2], [3], [-2], [0], [5], [-1]]


def integer_power_vc(spec, idx):
    import fractions
    from harness.run import VC
    d = rt.strip_share(spec["d"])

    def judge(val, couts):
        o = couts[idx]
        if o["kind"] != "value" or o.get("vtype") not in ("float", "int"):
            return None
        try:
            pt = {n: fractions.Fraction(int(v)) for n, v in val.items() if v == int(v)}
        except Exception:  # noqa
            return None
        if set(rt.variables_of(d)) - set(pt):
            return None
        exact = exact_eval(d, pt)
        if exact is None:
            return None
        got = fractions.Fraction(float.fromhex(o["value"])) if o["vtype"] == "float" else fractions.Fraction(int(o["value"]))
        if got != exact:
            return f"returned {float(got)!r} but every exact intermediate at this integer point is a small dyadic rational and the exact value is {exact}"
        return None
    return VC("dyadic-exactness:integer-powers-at-integer-points", z3.BoolVal(True), judge, {"concrete_only": True, "candidates": INTEGER_POINTS})


def vcs(spec, ctx, outs):
    out = outs[-1]
    idx = len(outs) - 1
    if out["kind"] == "value":
        res = [common.eq_value_vc("value==denotation", ctx, out, ctx.ref, ctx.indom, idx, twin=bool(spec.get("twin")))]
        e = exactness_vc(spec, ctx, out, idx)
        if e is not None:
            res.append(e)
        if spec.get("exact_points") and spec["id"] not in _POINTS_DONE:
            _POINTS_DONE.add(spec["id"])             # once per job (first path that returns a number)
            res.append(integer_power_vc(spec, idx))
        return res
    if common.strange(out):
        return [common.kind_vc("no-foreign-outcome-on-domain", ctx, out, z3.Not(ctx.indom), idx)]
    return []
