"""C01 - evaluation returns the real-arithmetic value of the expression (DESIGN.md 6, C01)."""
import z3

import families as fam
from harness import routes as rt
from props import common
from props.common import prepare  # noqa: F401

PROP = "C01"
LEVEL_TEXT = ("Bounded symbolic execution of the real Expression.at()/_evaluate()/math_functions code on real-valued "
              "proxies: for each tree of the families below, every path of the evaluator is explored (forks at every "
              "comparison) and on each path z3 decides 'value == denotation' for ALL points of R^k at once "
              "(unsat of PC & axioms & in-domain & value != reference).")
BOUNDS = {
    "quick": {"families": "F1 node lemmas over arbitrary-valued children (all 15 constructors, n<=5, bases e/2/0.5/1, symbolic base, "
              "symbolic constant, arity 0..3), DAG sharing, stratified F2 (parent x child kind), bare-number spelling, warm-cache variants",
              "variables": "<=4 symbolic coordinates", "outside": "deeper trees, n>7, arity>4, overflow/underflow, rounding size"},
    "thorough": {"families": "F1 (n<=7, arity<=4), DAG sharing, all of F2 (every parent over every level-1 child at every position), "
                 "F3 unary chains of depth 3, seeded F5 trees of 5-12 nodes, bare-number spelling, warm-cache variants",
                 "variables": "<=4 symbolic coordinates", "outside": "deeper trees, n>7, arity>4, overflow/underflow, rounding size"},
}
ASSUMPTIONS = ["Part E (IEEE-level dyadic exactness) is not part of this check: exactness on dyadic inputs follows from exact real equality "
               "only where each primitive operation is exact on the given inputs"]


def sym_param_jobs():
    out = []
    out.append({"d": ["Exponential", fam.V(1), ["sym", "b"]], "assume": [["gt", "b", 0]]})
    out.append({"d": ["Logarithm", fam.V(1), ["sym", "b"]], "assume": [["gt", "b", 0], ["ne", "b", 1]]})
    out.append({"d": ["Add", fam.C(1), fam.V(1)]})
    out.append({"d": ["Multiply", fam.C(1), fam.V(1), fam.C(2)]})
    out.append({"d": ["Power", fam.C(1), fam.V(1)]})
    out.append({"d": ["Power", fam.V(1), fam.C(1)]})
    out.append({"d": ["Divide", fam.C(1), fam.C(2)]})
    return out


def jobs(tier, seed):
    js = []

    def add(d, routes=("eval",), **kw):
        js.append({"mode": "route", "d": d, "routes": list(routes), **kw})

    for d in fam.f1(fam.V, tier):
        add(d)
    for j in sym_param_jobs():
        add(j["d"], assume=j.get("assume", []))
    for d in fam.f1_shared(tier):
        add(d)
        add(d, pre=[["eval", "root", "q"]])
        if d[0] != "share" and any(isinstance(c, list) and c[0] == "share" for c in d[1:]):
            key = [c for c in d[1:] if isinstance(c, list) and c[0] == "share"][0][1]
            add(d, pre=[["eval", key, "q"]])
    # bare number in place of a point
    for d in fam.unary_variants(fam.X, tier) + [["Add", fam.X, ["const", 2]], ["Multiply", fam.X, fam.X], ["Add"], ["const", 3]]:
        add(d, routes=("eval_num",), var="x", supplied=["x"])
    for d in [["NthPower", ["share", "s", fam.X], 2], ["Sine", ["share", "s", ["Negation", fam.X]]]]:
        add(d, routes=("eval_num",), var="x", supplied=["x"], pre=[["embed", "s", None]])
        add(d, routes=("eval",), pre=[["embed", "s", None]])
    if tier == "quick":
        f2 = fam.f2_quick(6)
    else:
        f2 = fam.f2("thorough")
    for d in f2:
        add(d)
    for d in f2[::9]:
        add(d, pre=[["eval", "root", "q"]])
        add(d, pre=[["rev", "root", "q"]], var="x")
    if tier == "thorough":
        for d in fam.f3(tier)[::3]:
            add(d)
        for d in fam.f5(seed, 150):
            add(d)
    # reachability twins (falsified oracle: must be refuted and replay)
    for d in (["Add", fam.V(1), fam.V(2)], ["NthRoot", fam.V(1), 3], ["Logarithm", fam.V(1), 2]):
        add(d, twin="oracle+1")
    for i, j in enumerate(js):
        j["id"] = f"{PROP}-{i}"
    return js


def vcs(spec, ctx, outs):
    out = outs[-1]
    idx = len(outs) - 1
    if out["kind"] == "value":
        return [common.eq_value_vc("value==denotation", ctx, out, ctx.ref, ctx.indom, idx, twin=bool(spec.get("twin")))]
    if common.strange(out):
        return [common.kind_vc("no-foreign-outcome-on-domain", ctx, out, z3.Not(ctx.indom), idx)]
    return []
