"""C03 - forward-mode partials equal the true partial derivative (DESIGN.md 6, C03)."""
import z3

import families as fam
import oracle as orc
from harness import routes as rt
from props import common
from props.common import prepare  # noqa: F401

PROP = "C03"
LEVEL_TEXT = ("Bounded symbolic execution of the real forward-mode code (Partial.at / Derivative.at, late): per path z3 decides "
              "'returned number == textbook derivative of the denotation' for ALL points of the domain at once. Node lemmas use "
              "children a_i*x+b_i whose value and slope are independently arbitrary: the induction step of the chain rule.")
BOUNDS = {
    "quick": {"families": "F1 node lemmas over children A=a_i*x+b_i and V (all constructors, n<=5, bases e/2/0.5/1, symbolic base/constant), "
              "DAG sharing, stratified F2, variable given as name/object, non-occurring variable (also absent from the point), Derivative with "
              "point/bare number, one long-lived Partial queried at several points, warm caches",
              "outside": "deeper trees, n>7, arity>4, rounding size, overflow/underflow"},
    "thorough": {"families": "as quick with n<=7, arity<=4, all F2, F3 chains (every third), seeded F5",
                 "outside": "deeper trees, n>7, arity>4, rounding size, overflow/underflow"},
}
ASSUMPTIONS = ["the reference derivative is a textbook differentiator over the denotation term (validated against sympy and finite differences at self-test)"]
OPTS = {"quick": {"timeout_ms": 10000, "fp_timeout_ms": 40000}, "thorough": {"timeout_ms": 30000, "fp_timeout_ms": 180000}}


def deriv_jobs(tier, seed, routes_main, add, one_var_routes):
    for d in fam.f1(fam.A, tier):
        add(d, routes=routes_main, var="x")
    for d in fam.f1(fam.V, tier):
        add(d, routes=routes_main[:1], var="v1")
    for d in fam.f1_shared(tier):
        add(d, routes=routes_main, var="x")
        add(d, routes=routes_main[:1], var="x", pre=[["eval", "root", "q"]])
        add(d, routes=routes_main[:1], var="y", pre=[["rev", "root", "q"]])
        if tier == "thorough" or not any(k in str(d) for k in ("NthRoot", "Power", "Logarithm")):      # (the costly trees keep their plain warm-cache variants)
            for pre in fam.sandwiches(d):
                add(d, routes=routes_main[:1], var="x", pre=pre)
        # one long-lived object of the route queried at q first, then at the main point (equal-but-distinct operands hold values of their own)
        add(d, routes=routes_main[:1], var="x", reuse_seq=[["obj", "q"]])
        add(d, routes=routes_main[:1], var="x", reuse_seq=[["obj", "q"], ["expr", "eval", "q"]])
    add(["Exponential", fam.A(1), ["sym", "b"]], routes=routes_main[:1], var="x", assume=[["gt", "b", 0]])
    add(["Logarithm", fam.A(1), ["sym", "b"]], routes=routes_main[:1], var="x", assume=[["gt", "b", 0], ["ne", "b", 1]])
    add(["Multiply", fam.C(1), fam.A(1), fam.C(2)], routes=routes_main[:1], var="x")
    add(["Power", fam.C(1), fam.A(1)], routes=routes_main[:1], var="x")
    add(["Power", fam.A(1), fam.C(1)], routes=routes_main[:1], var="x")
    # one-variable expressions: Derivative, with a Point and with a bare number
    for d in fam.unary_variants(fam.X, tier) + [["Multiply", fam.X, fam.X, fam.X], ["Power", fam.X, fam.X], ["Divide", ["const", 1], fam.X]]:
        add(d, routes=one_var_routes, var="x", supplied=["x"])
    # variable that does not occur: with and without its coordinate in the point
    for d in [["Multiply", fam.X, fam.Y], ["Logarithm", fam.X], ["Power", fam.X, fam.Y], ["Add"], ["const", 2], ["Sine", ["Divide", fam.X, fam.Y]]]:
        add(d, routes=routes_main[:1], var="t", supplied=rt.variables_of(d) + ["t"])
        add(d, routes=routes_main[:1], var="t", supplied=rt.variables_of(d))
    f2 = fam.f2_quick(6, 2) if tier == "quick" else fam.f2("thorough")
    for d in f2:
        add(d, routes=routes_main[:1], var="x")
    for d in f2[::5]:
        add(d, routes=routes_main[:1], var="y")
    for d in f2[::13]:
        add(d, routes=routes_main[:1], var="x", pre=[["eval", "root", "q"]])
    if tier == "thorough":
        for d in fam.f3(tier)[2::3]:
            add(d, routes=routes_main[:1], var="x")
        for d in fam.f5(seed + 2, 120):
            add(d, routes=routes_main[:1], var="x")


def jobs(tier, seed):
    js = []

    def add(d, routes=("fwd",), **kw):
        js.append({"mode": "route", "d": d, "routes": list(routes), **kw})

    deriv_jobs(tier, seed, ["fwd", "fwd_obj"], add, ["deriv", "deriv_num"])
    # a long-lived Partial/Derivative object used at several points, with the expression used elsewhere in between
    for d in [["NthPower", ["Add", ["Multiply", fam.X, fam.Y], ["const", 1]], 3], ["Multiply", fam.X, ["Exponential", fam.X]],
              ["Divide", ["Sine", fam.X], ["Add", fam.Y, fam.X]], ["Logarithm", ["Multiply", fam.X, fam.Y]]]:
        add(d, routes=["fwd"], var="x", reuse_seq=[["expr", "eval", "q"]])
        add(d, routes=["fwd", "deriv"] if len(rt.variables_of(d)) == 1 else ["fwd"], var="x", reuse_seq=[["expr", "eval", "q"], ["expr", "fwd_early", "q"]])
        add(d, routes=["fwd"], var="x", reuse_seq=[["obj", "q"]])
        add(d, routes=["fwd"], var="x", reuse_seq=[["obj", ""], ["expr", "eval", "q"]])
        add(d, routes=["fwd"], var="x", reuse_seq=[["obj", ""], ["expr", "rev", "q"]])
    for d in [["NthPower", ["Add", ["Add", fam.X, fam.Y], ["const", 1]], 2], ["Logarithm", ["Add", ["Add", fam.X, ["const", 2]], ["NthPower", fam.X, 2]]],
              ["Sine", ["Add", ["Add", fam.X, fam.Y], ["const", 1]]], ["Multiply", ["Add", ["Add", fam.X, fam.Y], fam.X], ["Exponential", ["Add", ["Add", fam.X, ["const", 1]], fam.Y]]]]:
        # the expression was simplified (twice) before: its own forward-mode partial must not change
        add(d, routes=["fwd"], var="x", pre=[["asexp_partial", "root", None], ["asexp_partial", "root", None]])
        add(d, routes=["fwd"], var="x", pre=[["normalize", "root", None], ["asexp_partial", "root", None], ["normalize", "root", None]])
    for d in (["Multiply", fam.A(1), fam.A(2)], ["NthRoot", fam.A(1), 3], ["Power", fam.V(1), fam.V(2)]):
        add(d, var="x" if d[0] != "Power" else "v1", twin="oracle+1")
    for i, j in enumerate(js):
        j["id"] = f"{PROP}-{i}"
    return js


def derivative_vcs(spec, ctx, outs, name="value==true-partial"):
    var = spec["var"]
    x = ctx.zenv.get(var)
    if x is None:
        x = z3.Real(var)
    ref = orc.ddx(ctx.ref, x)
    res = []
    n_routes = len(spec["routes"])
    for k in range(n_routes):
        idx = len(outs) - n_routes + k
        out = outs[idx]
        if out["kind"] == "value":
            res.append(common.eq_value_vc(f"{name}[{spec['routes'][k]}]", ctx, out, ref, ctx.indom, idx, twin=bool(spec.get("twin"))))
        elif common.strange(out):
            res.append(common.kind_vc(f"no-foreign-outcome-on-domain[{spec['routes'][k]}]", ctx, out, z3.Not(ctx.indom), idx))
    return res


POLY = ("var", "const", "Add", "Minus", "Negation", "Multiply", "NthPower", "share")


def is_polynomial_tree(d):
    if d[0] not in POLY:
        return False
    if d[0] in ("var", "const"):
        return not isinstance(d[1], list) or d[0] == "var"
    kids = d[2:3] if d[0] == "share" else (d[1:2] if d[0] == "NthPower" else d[1:])
    return all(is_polynomial_tree(c) for c in kids)


def exactness_vcs(spec, ctx, outs):
    """polynomial fragment: the forward-mode trace must stay within + - * (exact on small-integer / dyadic inputs: every intermediate is
    then an integer multiple of a fixed power of two below 2^53); a trace that leaves the fragment is compared with the reference by QF_FP"""
    from symreal import fpexact as fx
    from harness.run import VC
    from props import c01
    if not is_polynomial_tree(spec["d"]) or spec.get("twin") or spec.get("pre") or spec.get("reuse_seq"):
        return []
    res = []
    n = len(spec["routes"])
    var = spec["var"]
    x = ctx.zenv.get(var)
    if x is None:
        return []
    ref = orc.ddx(ctx.ref, x)
    for k in range(n):
        idx = len(outs) - n + k
        o = outs[idx]
        if o["kind"] != "value":
            continue
        t = common.val_term(o)
        if t is None:
            continue
        if fx.is_polynomial_trace(t):
            res.append(VC("polynomial-fragment:trace-uses-only-exact-operations", None, None, {"failed": False}))
        else:
            saved = ctx.ref
            ctx.ref = ref
            try:
                v = c01.exactness_vc(spec, ctx, o, idx)
            finally:
                ctx.ref = saved
            if v is not None:
                v.name = "polynomial-fragment:" + v.name
                res.append(v)
    return res


def vcs(spec, ctx, outs):
    return derivative_vcs(spec, ctx, outs) + exactness_vcs(spec, ctx, outs)
