"""The regular-language lemma for variable / coordinate names (shared by C14 and C16)."""
import re

import z3

from symreal import core as sx
from symreal import symstr
from harness.run import VC
from props import common

EXPECTED = {1: 3, 2: 5, 3: 6, 4: 4, 5: 4}
WHAT = {1: "Point(**{name: 3}).coordinate(name)", 2: "Variable(name).at(5)", 3: "Derivative(Variable(name)**2).at(3)",
        4: "Partial(name*other, name).at(Point(...))", 5: "LocatedDifferential(name*other, Point(...)).component(Variable(name))"}


def prepare(spec, ctx):
    symstr.inject_re()
    c = z3.String("name")
    ctx.consts = {"name": c}
    ctx.env = {"name": symstr.SymStr(c)}
    ctx.int_names = set()
    ctx.assume = [z3.Length(c) <= spec.get("maxlen", 8), c != z3.StringVal("other_")]    # "other_" is the harness's own second variable


def spec_ok(s):
    return re.fullmatch(r"\w+", s) is not None


def vcs(spec, ctx, outs):
    res = []
    name = ctx.consts["name"]
    ok = z3.InRe(name, z3.Plus(symstr.word_class()))
    if spec.get("twin"):
        ok = z3.InRe(name, z3.Plus(z3.Range("a", "z")))
    o = outs[0]
    twin = bool(spec.get("twin"))

    def okp(s):
        return (re.fullmatch(r"[a-z]+", s) is not None) if twin else spec_ok(s)
    if o["kind"] == "value":
        res.append(VC("Variable:accepted=>non-empty-word-characters", z3.Not(ok),
                      lambda val, couts: (f"accepted name {val['name']!r}" if couts[0]["kind"] == "value" and not okp(val["name"]) else None), {}))
        if o["value"] is not True:
            res.append(common.kind_vc("Variable:name-reported-back", ctx, o, z3.BoolVal(False), 0))
        for k in range(1, len(outs)):
            ok_k = outs[k]["kind"] == "value" and common.val_term(outs[k]) is not None
            if ok_k:
                t = common.val_term(outs[k])
                g = sx.ground(t)
                if g is not None and g == EXPECTED[k]:
                    res.append(VC(f"accepted-name-works-as-coordinate[{WHAT[k]}]:holds", None, None, {"failed": False}))
                    continue

            def judge(val, couts, k=k):
                c = couts[k] if k < len(couts) else {"kind": "missing"}
                if c["kind"] == "value" and c.get("mp") is not None and c["mp"] == EXPECTED[k]:
                    return None
                return f"{WHAT[k]} with name {val['name']!r}: {c.get('kind')} {c.get('msg', c.get('value'))}"
            res.append(VC(f"accepted-name-works-as-coordinate[{WHAT[k]}]", z3.BoolVal(True), judge, {}))
    else:
        res.append(VC("Variable:rejected=>not-a-word", ok,
                      lambda val, couts: (f"rejected name {val['name']!r} ({couts[0].get('kind')})" if couts[0]["kind"] != "value" and okp(val["name"]) else None),
                      {"kind": o["kind"]}))
    return res
