#!/bin/sh
# runs every claimed quick check on /repo's working tree; prints one line per check; exit 1 if any check does not exit 0
cd /verif; bad=0
for P in C01 C02 C03 C04 C05 C06 C07 C08 C09 C10 C11 C12 C13 C14 C15 C16 C17 C18; do
  o="$(./check $P ${TIER:-quick} 2>&1)"; rc=$?
  echo "$P rc=$rc $(printf '%s\n' "$o" | grep -E '^\[' | cut -c1-190)"
  [ "$rc" = 0 ] || { bad=1; printf '%s\n' "$o" | grep -vE '^  inconclusive|^KNOWN' | tail -5 | cut -c1-300; }
done
exit $bad
