#!/usr/bin/env python3
"""prints a markdown table of what the last run of each check covered (from /verif/evidence/*.json)"""
import glob
import json
print("| id | tier | jobs | paths | obligations | discharged | inconclusive | known-finding witnesses | solver queries | cvc5 cross-checked | wall s |")
print("|---|---|---|---|---|---|---|---|---|---|---|")
for f in sorted(glob.glob('/verif/evidence/C*.json')):
    e = json.load(open(f))
    c = e['coverage']
    print(f"| {e['property_id']} | {e['tier']} | {c['evaluations']} | {c['paths']} | {c['obligations']} | {c['discharged']} | {c['inconclusive_total']} | "
          f"{sum(c['known_findings_hit'].values())} | {c['solver_queries']} | {c.get('cvc5_crosschecked', 0)} | {e['wall_s']} |")
