#!/usr/bin/env python3
"""Regenerates /verif/MANIFEST.json from the table below (keeps claimed / not-applicable lists in one place)."""
import json
import os

HERE = os.path.dirname(os.path.dirname(os.path.abspath(__file__)))
props = [json.loads(l) for l in open(os.path.join(HERE, "properties.jsonl"))]
TECH = "bounded symbolic execution of the real Python code on z3-real proxies + SMT verification conditions (z3), sat models replayed on the un-instrumented code"
NOTE = ("Trusted: z3; the proxy model of Python float/int/math semantics (DESIGN.md 2.3); the axiom schemas for ln/pow/root/sin/cos "
        "(DESIGN.md 2.4, listed in evidence); mpmath for ground enclosures and replay judging; reals stand for doubles (rounding size, "
        "overflow, underflow outside the claim). Bounds: tree families, arities, parameter sets and history lengths as listed in the evidence file.")
CLAIMED = {
    "C01": ("6/C01", "For every tree of the bounded families the evaluator's result equals the real-arithmetic denotation for ALL points of the domain "
            "(solver verdict per path, not sampling); trees are enumerated (bounded), points/constants/bases are symbolic. Dyadic exactness: the code's "
            "float-operation trace equals the reference trace, or a QF_FP query (cvc5) finds small dyadic inputs on which they round differently."),
    "C02": ("6/C02", "For every tree of the bounded families: DomainError <=> point outside the strict domain, for ALL points, including exactly on "
            "every boundary and with offending sub-expressions masked by zero factors / base one / folds."),
    "C03": ("6/C03", "Forward-mode result equals the textbook derivative of the denotation for ALL domain points; node lemmas with children of "
            "arbitrary value and slope give the chain-rule induction step; bounded composition families on top."),
    "C04": ("6/C04", "Reverse-mode components for every variable at once equal the textbook partials for ALL domain points, including DAG sharing, "
            "repeated variables and node lemmas under an arbitrary incoming multiplier (the induction step of the reverse sweep)."),
    "C05": ("6/C05", "Both symbolic differentiation routes including the simplifier: the returned expression, evaluated symbolically, is defined on the "
            "original's domain and equals the textbook derivative for ALL points; second order and 'no new variable' likewise. Known finding D3 is "
            "attributed counterfactually and the affected trees are re-verified with that one rule instance disabled."),
    "C06": ("6/C06", "All differentiation routes are executed on one symbolic point in one path and compared pairwise (kind and value) for ALL points inside "
            "and outside the domain; structural claims are decided with the library's == under solver-checked forks. Known findings D3, D4."),
    "C07": ("6/C07", "Every numeric derivative route raises DomainError exactly where the expression is undefined, for ALL points, with undefined "
            "children in every position differentiation rules can skip; evaluator outcome cross-checked on the same path."),
    "C08": ("6/C08", "Every rewrite step, the whole pass, the give-up clause and re-simplification: each form is evaluated symbolically and z3 decides "
            "'defined wherever the input is, with the same value' for ALL points, per rule pattern and parameter combination. Known finding D3."),
    "C09": ("6/C09", "Operation histories (length <= 4) over pools sharing sub-expression objects, with two symbolic points so that cache contents and "
            "half-finished failing calls are symbolic: the last operation equals the same operation on a fresh pool for ALL points; plus an inductive step "
            "with ARBITRARY content in every memo field of every node (covers evaluation/derivative histories of any length). Known finding D3."),
    "C10": ("6/C10", "After every history of the bounded alphabet each operand still equals, prints, hashes and (for ALL points) evaluates like its fresh twin; "
            "list helpers against their specification for an arbitrary integer index; Point against later dict mutation."),
    "C11": ("6/C11", "Shapes enumerated (bounded), constants/parameters symbolic (each rule's value tests are solver-checked forks): along every path the step-by-step "
            "reduction revisits no form, stays within 2*size^2+10 steps, ends in a form a fresh copy of which is not rewritten further, and the library's "
            "driver gives no give-up warning for <= 20 nodes. No unbounded termination claim."),
    "C12": ("6/C12", "a == b <=> structural specification for ALL parameter values (n, base, constants, coordinates symbolic; classes/arity/order enumerated), "
            "symmetry/reflexivity/transitivity on the same path, equal => equal hash with hash() as an uninterpreted function (congruence), foreign "
            "comparands never raise; real sets/dicts in the concrete replay."),
    "C13": ("6/C13", "Printed text evaluated back (tokens for symbolic numbers in scope) equals the original for ALL parameter values; equal text => equal objects "
            "for pairs printed in the same process (hash-keyed memo = fork on an uninterpreted hash collision, replayed with CPython's real collisions); "
            "str == repr; real number formatting by one concrete replay per obligation."),
    "C14": ("6/C14", "Coordinate values symbolic, supplied-variable subsets/extra coordinates/routes enumerated: CoordinateMissing never with all variables "
            "supplied, never a number with a variable missing (also with warm caches), bare number/Derivative accepted exactly for <=1 variable; names by "
            "a regular-language lemma (z3 strings) on the real constructor, executed with a symbolic str subclass."),
    "C15": ("6/C15", "x ** k for ALL integers and ALL reals k (symbolic): NthPower(x,k) with int n exactly for integral k >= 1, else an exception; operators vs "
            "constructor twins (==, class, printed form) over all pairs of operand kinds incl. a symbolic constant; foreign operands rejected."),
    "C16": ("6/C16", "n over ALL integers/reals and base over ALL reals (symbolic): accepted <=> documented range, stored == given (n as int); names by the "
            "regular-language lemma; every constructor position rejects the enumerated foreign objects."),
    "C18": ("6/C18", "Iteration order of every variable-name set and every set()/frozenset() inside smoothmath is chosen by the solver (all k! orders are paths) and the "
            "coordinate order is permuted: canonical vs chosen order must give identical kinds / identical expressions / identical z3 terms (= identical "
            "float operation sequences); differences are replayed in fresh processes under 16 PYTHONHASHSEED values."),
    "C17": ("6/C17", "On every solver-feasible path of evaluation / derivative routes / as_expression the outcome is a real number, DomainError or "
            "CoordinateMissing; proxies reproduce Python's ZeroDivisionError/ValueError/complex/TypeError/KeyError behaviour."),
}
PENDING_REASON = "check under construction in this build phase (harness not landed yet); not claimed until it runs green on the unchanged tree"

checks, na = [], []
for p in props:
    i = p["id"]
    if i in CLAIMED:
        ref, text = CLAIMED[i]
        checks.append({
            "property_id": i,
            "quick_cmd": f"./check {i} quick",
            "thorough_cmd": f"./check {i} thorough",
            "evidence_file": f"/verif/evidence/{i}.json",
            "replay_cmd_template": f"./check {i} --replay {{path}}",
            "engine": "symreal",
            "level_claimed": {"category": "other", "text": text, "design_ref": "DESIGN.md section " + ref},
            "level_note": NOTE,
            "technique": TECH,
        })
    else:
        na.append({"property_id": i, "reason": PENDING_REASON})
m = {
    "version": 1,
    "setup_cmd": "bin/ensure_env >/dev/null",
    "hooks": {"guard": "SMOOTHMATH_VERIF",
              "enable": "none needed: instrumentation is harness-side only (namespace shadowing of float/int/math in the smoothmath modules and a "
                        "Constant.__init__ wrapper, installed at import time inside the check process); the guard name is reserved and unused",
              "baseline_off_cmd": "cd /repo && /venv/bin/python -m pytest -ra -q -p no:cacheprovider --timeout=900",
              "source_commits": [], "add_only": True},
    "engines": [{"name": "symreal", "path": "/verif/symreal", "serves_properties": sorted(CLAIMED),
                 "kind_free_text": "proxy-based symbolic executor of the real smoothmath code over z3 reals; re-execution DFS over solver-checked forks; "
                                   "uninterpreted ln/pow/root/sin/cos with ground axiom instances; replay gate on /venv/bin/python"}],
    "checks": checks,
    "not_applicable": na,
    "notes": "Exit codes: 0 held / 1 VIOLATION line(s) / 3 harness error (never with a VIOLATION line). Fixed defects and known findings: /verif/known_findings.json.",
}
json.dump(m, open(os.path.join(HERE, "MANIFEST.json"), "w"), indent=1)
print("claimed", sorted(CLAIMED), "pending", [x["property_id"] for x in na])
