#!/bin/sh
# seed_matrix.sh <seed-id> <Cnn> [<Cnn> ...] : run the quick checks against a seeded change applied to a SCRATCH worktree of /repo
# (never /repo itself); evidence and replays are redirected.  Prints detected / missed.
ID="$1"; shift
SCR="$(mktemp -d /tmp/seedone.XXXXXX)"
cd /verif
git -C /repo worktree add -q --detach "$SCR/wt" HEAD || exit 2
git -C "$SCR/wt" apply "/verif/seeded/$ID/patch.diff" || { git -C /repo worktree remove --force "$SCR/wt"; rm -rf "$SCR"; exit 2; }
for P in "$@"; do
  out="$(SMOOTHMATH_SRC="$SCR/wt/src" VERIF_EVIDENCE_DIR="$SCR/ev" VERIF_REPLAY_DIR="$SCR/rp" ./check $P ${TIER:-quick} 2>&1)"; rc=$?
  n=$(printf '%s\n' "$out" | grep -c '^VIOLATION')
  printf '%s vs %s: exit=%s violations=%s %s\n' "$ID" "$P" "$rc" "$n" "$(printf '%s\n' "$out" | grep -E '^\[|HARNESS' | tail -1 | cut -c1-160)"
done
git -C /repo worktree remove --force "$SCR/wt"
rm -rf "$SCR"
