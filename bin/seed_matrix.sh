#!/bin/sh
# seed_matrix.sh <seed-id> <Cnn> [<Cnn> ...] : apply /verif/seeded/<seed-id>/patch.diff to /repo, run the quick checks, undo.  Prints detected / missed.
ID="$1"; shift
cd /verif
git -C /repo diff --quiet || { echo "/repo is dirty"; exit 2; }
git -C /repo apply "/verif/seeded/$ID/patch.diff" || exit 2
for P in "$@"; do
  out="$(./check $P ${TIER:-quick} 2>&1)"; rc=$?
  n=$(printf '%s\n' "$out" | grep -c '^VIOLATION')
  printf '%s vs %s: exit=%s violations=%s %s\n' "$ID" "$P" "$rc" "$n" "$(printf '%s\n' "$out" | grep -E '^\[|HARNESS' | tail -1 | cut -c1-160)"
done
git -C /repo checkout -- .
