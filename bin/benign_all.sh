#!/bin/sh
# Runs EVERY quick check against each behaviour-preserving bundle seeded/benign-*/patch.diff on a scratch worktree: no check may raise an alarm or crash.
# usage: bin/benign_all.sh [outfile]
OUT="${1:-/tmp/BENIGN.md}"
SCR="$(mktemp -d /tmp/benign.XXXXXX)"
cd /verif
: > "$OUT"
for dir in /verif/seeded/benign-*/; do
  id="$(basename "$dir")"
  WT="$SCR/wt"
  git -C /repo worktree add -q --detach "$WT" HEAD || continue
  if git -C "$WT" apply "$dir/patch.diff"; then
    (cd "$WT" && /venv/bin/python -m pytest -q -p no:cacheprovider -x 2>&1 | tail -1)
    for P in C01 C02 C03 C04 C05 C06 C07 C08 C09 C10 C11 C12 C13 C14 C15 C16 C17 C18; do
      o="$(SMOOTHMATH_SRC="$WT/src" VERIF_EVIDENCE_DIR="$SCR/ev" VERIF_REPLAY_DIR="$SCR/rp" ./check $P quick 2>&1)"; rc=$?
      n=$(printf '%s\n' "$o" | grep -c '^VIOLATION')
      echo "| $id | $P quick | exit $rc | $n violations |" | tee -a "$OUT"
      [ "$rc" = 0 ] || printf '%s\n' "$o" | grep -E '^VIOLATION|HARNESS' | head -3
    done
  else
    echo "| $id | patch does not apply |" | tee -a "$OUT"
  fi
  git -C /repo worktree remove --force "$WT"
done
rm -rf "$SCR"
