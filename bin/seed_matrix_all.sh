#!/bin/sh
# Runs every seeded change against the quick check of the property it targets (and of the properties listed in EXTRA), on a scratch
# worktree of /repo (never /repo itself), with evidence/replays redirected so that the committed evidence is not touched.
# usage: bin/seed_matrix_all.sh [outfile]
OUT="${1:-/verif/seeded/MATRIX.md}"
SCR="$(mktemp -d /tmp/seedmatrix.XXXXXX)"
cd /verif
echo "| seeded change | property | check | result | violations |" > "$OUT.tmp"
echo "|---|---|---|---|---|" >> "$OUT.tmp"
for dir in /verif/seeded/*/; do
  id="$(basename "$dir")"
  [ -f "$dir/patch.diff" ] || continue
  case "$id" in ${ONLY:-*}) ;; *) continue;; esac
  prop="$(python3 -c "import json,sys; print(json.load(open('$dir/meta.json')).get('property',''))" 2>/dev/null)"
  extra="$(python3 -c "import json,sys; print(' '.join(json.load(open('$dir/meta.json')).get('also_run',[])))" 2>/dev/null)"
  [ -n "$prop" ] || continue
  WT="$SCR/wt"
  git -C /repo worktree add -q --detach "$WT" HEAD || continue
  if git -C "$WT" apply "$dir/patch.diff"; then
    [ -n "${OWN_ONLY:-}" ] && extra=""
    for P in $prop $extra; do
      o="$(SMOOTHMATH_SRC="$WT/src" VERIF_EVIDENCE_DIR="$SCR/ev" VERIF_REPLAY_DIR="$SCR/rp" ./check $P quick 2>&1)"; rc=$?
      n=$(printf '%s\n' "$o" | grep -c '^VIOLATION')
      res="MISSED"; [ "$rc" = 1 ] && [ "$n" -gt 0 ] && res="detected"; [ "$rc" = 3 ] && res="harness-error"
      echo "| $id | $prop | $P quick | $res | $n |" >> "$OUT.tmp"
      echo "$id $P rc=$rc violations=$n $res"
    done
  else
    echo "| $id | $prop | - | patch does not apply | - |" >> "$OUT.tmp"
  fi
  git -C /repo worktree remove --force "$WT"
done
rm -rf "$SCR"
mv "$OUT.tmp" "$OUT"
