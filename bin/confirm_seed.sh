#!/bin/sh
# confirm_seed.sh <src_dir with patch.diff demo.py meta.json> <seed id> : confirms a seeded change in a scratch worktree and stores it under /verif/seeded/<id>
set -u
SRC="$1"; ID="$2"
WT="/tmp/seedconfirm_$$"
git -C /repo worktree add -q --detach "$WT" HEAD || exit 2
cd "$WT"
status="ok"
git apply "$SRC/patch.diff" || status="patch-does-not-apply"
if [ "$status" = ok ]; then
  /venv/bin/python -m pytest -q -p no:cacheprovider -x >/tmp/seedconfirm_$$.log 2>&1 || status="tests-fail-with-change"
  tests_line="$(tail -1 /tmp/seedconfirm_$$.log)"
  PYTHONPATH="$WT/src" /venv/bin/python "$SRC/demo.py" >/tmp/seedconfirm_$$.demo1 2>&1; d1=$?
  git checkout -q -- .
  PYTHONPATH="$WT/src" /venv/bin/python "$SRC/demo.py" >/tmp/seedconfirm_$$.demo0 2>&1; d0=$?
  [ "$d1" = 1 ] || status="demo-does-not-fail-with-change($d1)"
  [ "$d0" = 0 ] || status="demo-fails-without-change($d0)"
fi
cd /
git -C /repo worktree remove --force "$WT"
rm -f /tmp/seedconfirm_$$.*
echo "$ID: $status ${tests_line:-}"
if [ "$status" = ok ]; then
  mkdir -p "/verif/seeded/$ID"
  cp "$SRC/patch.diff" "$SRC/demo.py" "/verif/seeded/$ID/"
  python3 - "$SRC/meta.json" "/verif/seeded/$ID/meta.json" "$tests_line" <<'PY'
import json, sys
m = json.load(open(sys.argv[1]))
m["confirmed_by_framework_author"] = {
    "ran": ["git worktree add (scratch, outside /repo and /verif)", "git apply patch.diff", "/venv/bin/python -m pytest -q -p no:cacheprovider -x  -> " + sys.argv[3],
            "demo.py with the change -> exit 1", "git checkout -- . ; demo.py without the change -> exit 0", "git worktree remove --force"],
    "tests_pass_with_change": True, "demo_fails_with_change": True, "demo_passes_without_change": True}
m.setdefault("source", "independent sub-agent given only the property text and a scratch worktree")
json.dump(m, open(sys.argv[2], "w"), indent=1)
PY
fi
