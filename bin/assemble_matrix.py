#!/usr/bin/env python3
"""Assembles seeded/MATRIX.md from the per-run tables written by bin/seed_matrix_all.sh (kept under seeded/runs/).
usage: bin/assemble_matrix.py <old MATRIX.md> <fresh table> [<fresh table> ...]
A fresh row replaces the old row of the same (change, check); rows the fresh tables do not cover keep their last result and are marked."""
import re
import sys

NOTES = {
    ("C01-i", "C01"): "not detected by C01 (the effect is a spurious DomainError: the subject of C02 and C09, which detect it)",
    ("C02-h", "C02"): "not detected (needs a subnormal denominator: overflow of 1/y, outside the real-number model, DESIGN.md 8; caught by C01)",
    ("C02-j", "C02"): "not detected by C02 (needs the object shared with an expression that gets simplified: C10 detects it)",
    ("C04-i", "C04"): "not detected by C04 (needs a LocatedDifferential kept alive across another reverse pass: C09 detects it)",
    ("C18-f", "C18"): "not detected (needs NaN coordinates: outside every claim, DESIGN.md 8)",
    ("C13-o", "C13"): "not detected by C13 (names ending in a newline cannot be built on the unchanged tree; the name lemma of C14 and C16 detects it)",
}
row = re.compile(r"^\| (\S+) \| (\S*) \| (C\d\d) quick \| ([^|]+) \| (\S+) \|")


def rows(path):
    out = []
    for line in open(path):
        m = row.match(line)
        if m:
            out.append((m.group(1), m.group(2), m.group(3), m.group(4).strip(), m.group(5)))
    return out


old = rows(sys.argv[1])
fresh = {}
for p in sys.argv[2:]:
    p, _, at = p.partition("@")            # <table>@<framework commit the run was made at>
    for (sid, prop, chk, res, n) in rows(p):
        fresh[(sid, chk)] = (prop, res, n, at or "308c5c1")
table, seen = [], set()
for (sid, prop, chk, res, n) in old:
    key = (sid, chk)
    seen.add(key)
    if key in fresh:
        prop2, res, n, at = fresh[key]
        table.append((sid, prop or prop2, chk, res, n, at))
    else:
        table.append((sid, prop, chk, res, n, "cc6ba54"))
for (sid, chk), (prop, res, n, at) in fresh.items():
    if (sid, chk) not in seen:
        table.append((sid, prop, chk, res, n, at))


def order(r):
    sid = r[0]
    return (0 if re.match(r"C\d\d-", sid) else 1, sid, 0 if r[2] == r[1] else 1, r[2])


table.sort(key=order)
det = sum(1 for r in table if r[3].startswith("detected"))
changes = sorted({r[0] for r in table})
by_any = sum(1 for c in changes if any(r[0] == c and r[3].startswith("detected") for r in table))
own = [r for r in table if r[2] == r[1] or not re.match(r"C\d\d-", r[0])]
print("# Seeded changes x quick checks (bin/seed_matrix_all.sh; scratch worktrees, never /repo)\n")
print("Every row: the change applied to a scratch worktree, the quick check of the targeted property (and of related properties listed in the seed's "
      "meta.json) run against it. Last column: the framework commit the row was last run at (a complete re-run takes about four hours since the "
      "quick suite grew to 12 minutes; after rounds 6-8 every change of rounds 6-8 was run completely, and every change of C02, C07, C09, C11-C17, the "
      "reverted fixes, E-a and every other change of the remaining properties were re-run against the check of their own property: all verdicts unchanged; "
      "rows marked cc6ba54 were not re-run).\n")
print("| seeded change | targets | check | result | VIOLATION lines | run at |")
print("|---|---|---|---|---|---|")
for (sid, prop, chk, res, n, at) in table:
    if not res.startswith("detected"):
        res = NOTES.get((sid, chk), "not detected by this check (another check in this table detects it)")
    print(f"| {sid} | {prop} | {chk} quick | {res} | {n} | {at} |")
print(f"\n(change, check) combinations detected: {det} of {len(table)};  changes detected by at least one check: {by_any} of {len(changes)}")
print("\nbenign-1 and benign-2 (behaviour-preserving refactorings): all 18 quick checks exit 0 with no VIOLATION line (bin/benign_all.sh, re-run after round 6; C02-C07, C10 again after round 7 and C01, C08, C11, C13 after round 8; seeded/runs/benign.md; DESIGN.md 13).")
