"""F4: rewrite-rule patterns (DESIGN.md section 3): every rule's left-hand side with variables in the holes,
every parameter combination, every position/arity inside n-ary parents, neighbours of every kind."""
import itertools

from families import X, Y, Z, C, dedup, unary_variants

W = ["var", "w"]
HOLES = [X, Y, Z, W]


def const(v):
    return ["const", v]


def param_pairs(tier):
    r = range(1, 7) if tier == "thorough" else range(1, 5)
    out = []
    for n, m in itertools.product(r, r):
        out += [["NthPower", ["NthRoot", X, m], n], ["NthRoot", ["NthPower", X, m], n]]
        if n <= 3 and m <= 3 or tier == "thorough" and (n + m) % 2 == 1:
            out += [["NthPower", ["NthPower", X, m], n], ["NthRoot", ["NthRoot", X, m], n]]
    for (m, n) in ((6, 4), (4, 6), (8, 12), (9, 6), (6, 9), (2, 6), (6, 2), (12, 8)):
        out += [["NthPower", ["NthRoot", X, m], n], ["NthRoot", ["NthPower", X, m], n]]
    # n given as an integral float (documented as allowed): must behave exactly like the int
    for (m, n) in ((2, 5.0), (2.0, 6), (3.0, 3.0), (4.0, 2), (2, 2.0), (3, 6.0)):
        out += [["NthPower", ["NthRoot", X, m], n], ["NthRoot", ["NthPower", X, m], n], ["NthPower", ["NthPower", X, m], n]]
    out += [["NthPower", ["Negation", X], 3.0], ["NthPower", ["Reciprocal", X], 2.0], ["Logarithm", ["NthPower", X, 3.0]], ["NthRoot", ["Negation", X], 3.0],
            ["Multiply", ["NthPower", X, 2.0], ["NthPower", Y, 2]], ["Multiply", ["NthRoot", X, 3.0], ["NthRoot", Y, 3]]]
    return out


def unary_over_unary(tier):
    ns = [1, 2, 3, 4, 5] if tier == "thorough" else [1, 2, 3]
    out = []
    for n in ns:
        for inner in (["Negation", X], ["Reciprocal", X], ["Exponential", X], ["Exponential", X, 2], ["Exponential", X, 0.5],
                      ["Exponential", X, 1], ["Logarithm", X]):
            out += [["NthPower", inner, n], ["NthRoot", inner, n]]
        for b in (None, 2, 0.5):
            out.append(["Logarithm", ["NthPower", X, n]] if b is None else ["Logarithm", ["NthPower", X, n], b])
            out.append(["Logarithm", ["NthRoot", X, n]] if b is None else ["Logarithm", ["NthRoot", X, n], b])
    bases = [None, 2, 2.0, 0.5, 10]
    for b1, b2 in itertools.product(bases, bases):
        e = ["Exponential", ["Logarithm", X] + ([b1] if b1 is not None else [])] + ([b2] if b2 is not None else [])
        l = ["Logarithm", ["Exponential", X] + ([b1] if b1 is not None else [])] + ([b2] if b2 is not None else [])
        out += [e, l]
    out.append(["Logarithm", ["Exponential", X, 1], 2])
    for K in ("Negation", "Reciprocal", "Sine", "Cosine", "Exponential", "Logarithm"):
        for I in ("Negation", "Reciprocal"):
            out.append([K, [I, X]])
            out.append([K, [I, [I, X]]])
    out += [["Negation", ["Add", X, Y, Z]], ["Negation", ["Add"]], ["Negation", ["Add", X]], ["Reciprocal", ["Multiply", X, Y, Z]],
            ["Reciprocal", ["Multiply"]], ["Reciprocal", ["Multiply", X]], ["Negation", ["Minus", X, Y]], ["Reciprocal", ["Divide", X, Y]],
            ["Negation", ["Multiply", X, ["Negation", Y]]], ["Reciprocal", ["Negation", ["Reciprocal", X]]]]
    return out


def power_patterns(tier):
    out = []
    exps = [1, 0, -1, 2, 3, 2.0, 2.5, 3.5, -2, -3, 0.5, ["sym", "c1"]]
    basesc = [1, 2, 0.5, 0, -1, 2.718281828459045, ["sym", "c1"]]
    for c in exps:
        out.append(["Power", X, const(c)])
        out.append(["Power", ["Add", X, Y], const(c)])
    for c in basesc:
        out.append(["Power", const(c), X])
        out.append(["Power", const(c), ["Negation", X]])
    out += [["Power", ["Power", X, Y], Z], ["Power", X, ["Negation", Y]], ["Power", ["Reciprocal", X], Y],
            ["Power", ["Reciprocal", X], ["Negation", Y]], ["Power", ["Power", X, const(2)], const(0.5)],
            ["Power", ["Power", X, Y], const(2)], ["Power", ["NthPower", X, 2], Y], ["Power", ["NthPower", X, 3], Y],
            ["Power", ["Exponential", X], Y], ["Power", X, ["Logarithm", Y]], ["Power", const(1), ["Logarithm", X]],
            ["Power", ["Add", const(1)], ["Reciprocal", X]], ["Power", const(2), const(3)], ["Power", const(-2), const(2)],
            ["Power", ["Negation", X], const(2)], ["Power", ["Negation", X], Y], ["Power", const(2), ["Multiply", X, Y]],
            ["Power", const(2), ["Add", X, Y]]]
    # a general power whose BASE is a compound with a constant (of either sign, symbolic) at each position: distributing the power over the
    # base is only right for positive factors
    for cv in (-2, 2, -1, ["sym", "c1"]):
        for ex in (Y, const(1.5), const(0.5), const(-2.5)):
            out.append(["Power", ["Multiply", X, const(cv)], ex])
            out.append(["Power", ["Multiply", const(cv), X, Z], ex])
            out.append(["Power", ["Divide", X, const(cv)], ex])
            out.append(["Power", ["Divide", const(cv), X], ex])
        out.append(["Power", ["Add", X, const(cv)], Y])
        out.append(["Power", ["Negation", ["Multiply", X, const(cv)]], Y])
        out.append(["Power", ["Multiply", ["Negation", X], const(cv)], const(1.5)])
        out.append(["Power", ["NthPower", ["Multiply", X, const(cv)], 3], Y])
        out.append(["Power", ["NthRoot", ["Multiply", X, const(cv)], 3], Y])
    out += [["Power", ["Multiply", ["Negation", X], ["Negation", Y]], Z], ["Power", ["Multiply", X, Y], Z], ["Power", ["Multiply", X, X], Y],
            ["Power", ["Divide", ["Negation", X], ["Negation", Y]], Z], ["Power", ["Reciprocal", ["Negation", X]], Y],
            ["Power", ["Negation", ["Negation", X]], Y], ["Power", ["Minus", X, Y], ["Multiply", const(2), Z]]]
    return out


def nary_patterns(tier):
    out = []
    # Multiply consolidations
    npow = [[2, 2], [2, 3], [3, 3], [2, 2, 3], [2, 3, 2], [1, 1], [2, 2, 2]]
    for ns in npow:
        hs = HOLES[:len(ns)]
        out.append(["Multiply"] + [["NthPower", h, n] for h, n in zip(hs, ns)])
        out.append(["Multiply"] + [["NthRoot", h, n] for h, n in zip(hs, ns)])
        out.append(["Multiply", W] + [["NthRoot", h, n] for h, n in zip(hs, ns)])
        out.append(["Multiply"] + [["NthPower", h, n] for h, n in zip(hs, ns)] + [W])
    out.append(["Multiply", ["NthRoot", X, 2], ["NthRoot", X, 2]])
    out.append(["Multiply", ["NthRoot", X, 3], ["NthRoot", Y, 3], ["NthRoot", Z, 3]])
    out.append(["Multiply", ["NthRoot", X, 4], ["NthRoot", Y, 4]])
    out.append(["Multiply", ["NthPower", X, 2], ["NthRoot", Y, 2], ["NthPower", Z, 2], ["NthRoot", W, 2]])
    bsets = [[None, None], [2, 2], [2, 2.0], [2, None], [0.5, 0.5, 2], [None, 2, None], [1, 1], [2, 1]]
    for bs in bsets:
        hs = HOLES[:len(bs)]
        out.append(["Multiply"] + [["Exponential", h] + ([b] if b is not None else []) for h, b in zip(hs, bs)])
        if 1 not in bs:
            out.append(["Add"] + [["Logarithm", h] + ([b] if b is not None else []) for h, b in zip(hs, bs)])
            out.append(["Add", W] + [["Logarithm", h] + ([b] if b is not None else []) for h, b in zip(hs, bs)])
    out.append(["Add", ["Logarithm", X], ["Logarithm", Y], ["Logarithm", Z]])
    out.append(["Add", ["Logarithm", X], ["Negation", ["Logarithm", Y]]])
    out.append(["Add", ["Logarithm", X], ["Logarithm", ["Reciprocal", Y]]])
    out.append(["Add", ["Logarithm", X, 2], ["Logarithm", ["NthPower", X, 3], 2]])
    # negations, zeros, ones, constants at every position; nested n-ary nodes
    for K, unit, zero in (("Multiply", 1, 0), ("Add", 0, None)):
        for k in (1, 2, 3, 4):
            out.append([K] + [["Negation", h] for h in HOLES[:k]])
            out.append([K, W] + [["Negation", h] for h in HOLES[:k]][: max(1, k - 1)] + [X])
        for pos in range(3):
            for cv in (0, 1, -1, 2, ["sym", "c1"]):
                kids = [X, Y, Z]
                kids[pos] = const(cv)
                out.append([K] + kids)
        out += [[K, const(2), X, const(3)], [K, const(2), const(3)], [K, const(["sym", "c1"]), X, const(["sym", "c2"])],
                [K, const(0.5), X, const(2), Y, const(-1)], [K, const(unit)], [K, const(unit), const(unit)],
                [K, [K, X, Y], Z], [K, X, [K, Y, Z]], [K, [K, X], [K], [K, Y, [K, Z, W]]], [K, [K]], [K, [K, [K, X]]]]
        other = "Add" if K == "Multiply" else "Multiply"
        out += [[K, [other, X, Y], Z], [K, [other], X], [K, [other, X], [other, Y]]]
    out += [["Multiply", const(0), ["Logarithm", X]], ["Multiply", ["Reciprocal", X], const(0)], ["Multiply", X, const(0), ["Divide", Y, Z]],
            ["Multiply", ["Reciprocal", X], ["Reciprocal", Y]], ["Multiply", X, ["Reciprocal", Y], Z, ["Reciprocal", W]],
            ["Multiply", ["Reciprocal", X]], ["Multiply", ["Negation", ["Reciprocal", X]], Y],
            ["Add", ["Negation", X], ["Negation", Y]], ["Add", X, ["Negation", Y], Z, ["Negation", W]], ["Add", ["Negation", X]],
            ["Minus", X, ["Negation", Y]], ["Minus", ["Negation", X], Y], ["Minus", X, ["Minus", Y, Z]], ["Minus", X, X],
            ["Divide", X, ["Divide", Y, Z]], ["Divide", ["Divide", X, Y], Z], ["Divide", X, ["Reciprocal", Y]], ["Divide", X, X],
            ["Divide", ["Negation", X], ["Negation", Y]], ["Divide", const(1), X], ["Divide", X, const(1)], ["Divide", X, const(2)],
            ["Divide", const(0), X], ["Divide", X, const(["sym", "c1"])], ["Minus", X, const(0)], ["Minus", const(0), X]]
    return out


def variable_free(tier):
    """variable-free sub-trees (constant folding), defined and undefined"""
    vf = [["Logarithm", const(2)], ["Logarithm", const(-1)], ["Reciprocal", const(0)], ["Divide", const(1), const(3)],
          ["NthRoot", const(-8), 3], ["NthRoot", const(-4), 2], ["Sine", const(2)], ["Power", const(2), const(0.5)],
          ["Power", const(0), const(0)], ["Exponential", const(1)], ["Add", const(1), const(2)], ["Multiply", const(0), ["Logarithm", const(-1)]],
          ["NthRoot", const(0), 3], ["Multiply"], ["Add"], ["Negation", ["Add"]], ["Power", const(1), ["Logarithm", const(-1)]]]
    out = list(vf)
    for v in vf:
        out += [["Add", X, v], ["Multiply", v, X], ["Multiply", const(0), v, X], ["Power", X, v], ["Power", v, X], ["Divide", X, v],
                ["Sine", v], ["NthPower", v, 2], ["Minus", v, X]]
    return out


def shared_variants(tier):
    """a rule's inner node is ALSO referenced elsewhere in the tree (DAG): rewriting must not disturb the other reference"""
    out = []
    pats = param_pairs("quick")[::3] + unary_over_unary("quick")[::4]
    for d in pats:
        if len(d) >= 2 and isinstance(d[1], list) and d[1][0] not in ("var", "const"):
            inner = ["share", "s", d[1]]
            outer = [d[0], inner] + d[2:]
            out.append(["Add", outer, inner])
            out.append(["Multiply", inner, outer])
    return out


def unary_over_nary_with_constants(tier):
    """a unary node over a product / sum that contains a constant at each position (rules that look for a constant factor or term)"""
    out = []
    ks = [["Cosine"], ["Sine"], ["Negation"], ["Reciprocal"], ["Exponential"], ["Logarithm"], ["NthPower", 2], ["NthPower", 3], ["NthRoot", 3]]
    for k in ks:
        for inner_kind in ("Multiply", "Add"):
            for cv in (-1, 0, 1, 2):
                for pos in range(3):
                    kids = [X, Y, Z]
                    kids[pos] = const(cv)
                    out.append([k[0], [inner_kind] + kids] + k[1:])
            out.append([k[0], [inner_kind, const(-1), X]] + k[1:])
            out.append([k[0], [inner_kind, X, const(-1)]] + k[1:])
            out.append([k[0], [inner_kind, ["Negation", X], Y]] + k[1:])
    return out


def tiny_and_symbolic_folds(tier):
    """variable-free compound sub-trees whose value is tiny or symbolic (constant folding must keep the value)"""
    c1, c2 = const(["sym", "c1"]), const(["sym", "c2"])
    vf = [["Multiply", const(1e-7), const(1e-7)], ["NthPower", const(1e-5), 3], ["Negation", const(1e-13)], ["Reciprocal", const(1e15)],
          ["Exponential", const(-25)], ["Multiply", const(6.626e-34), const(2.998e8)], ["Multiply", c1, c2], ["Add", c1, c2], ["Reciprocal", c1],
          ["NthPower", c1, 2], ["Minus", c1, c2], ["Divide", c1, c2], ["Negation", c1]]
    out = []
    for v in vf:
        out += [["Divide", X, v], ["Multiply", X, v], ["Add", X, v], ["Multiply", ["NthPower", X, 3], v], ["Logarithm", ["Add", X, v]], ["Power", X, v],
                ["Multiply", v, ["Reciprocal", X]]]
    return out


def failing_variable_free_with_rules(tier):
    """a variable-free sub-tree that cannot be folded into a constant (its evaluation fails) but to which rewrite rules still apply, placed
    directly under every kind of parent next to a variable: the rewriter must neither stop early nor loop on it"""
    bad = [["Logarithm", const(0)], ["Logarithm", const(-1), 2], ["Reciprocal", const(0)], ["NthRoot", const(-4), 2], ["Power", const(0), const(0)],
           ["Divide", const(1), const(0)]]
    wraps = [lambda b: ["Negation", ["Negation", b]], lambda b: ["Reciprocal", ["Reciprocal", b]], lambda b: ["NthPower", ["NthPower", b, 2], 3],
             lambda b: ["Negation", ["Multiply", const(0), b]], lambda b: ["Exponential", ["Logarithm", b]], lambda b: ["NthPower", b, 1],
             lambda b: ["Add", b, const(0)], lambda b: ["Multiply", const(1), ["Negation", ["Negation", b]]], lambda b: ["Minus", b, b]]
    parents = [lambda f: ["Add", X, f], lambda f: ["Multiply", X, f], lambda f: ["Multiply", ["Sine", X], f, Y], lambda f: ["Add", f, X, f],
               lambda f: ["Minus", X, f], lambda f: ["Divide", f, X], lambda f: ["Power", X, f], lambda f: ["Sine", ["Add", X, f]],
               lambda f: ["Add", ["Multiply", Y, f], X]]
    out = []
    for bi, b in enumerate(bad):
        for wi, w in enumerate(wraps):
            for pi, par in enumerate(parents):
                if tier == "quick" and (bi + wi + pi) % 3 and not (bi == 0 and pi < 3):
                    continue
                out.append(par(w(b)))
    return out


def degenerate_arity(tier):
    """sums / products with exactly ONE (or no) operand, written directly or left behind when ones / zeros are eliminated, nested in each other and under
    the unary nodes whose rules look inside a sum / product"""
    out = []
    for K in ("Add", "Multiply"):
        O = "Multiply" if K == "Add" else "Add"
        unit = const(0) if K == "Add" else const(1)
        out += [[K, [K, X, Y]], [K, [K, [K, X]]], [K, ["Negation", X]], [K, ["Reciprocal", X]], [K, const(2)], [K, [O, X, Y]], [K, [K]],
                [K, unit, ["Negation", X]], [K, unit, [K, X, Y]], [K, unit, ["Reciprocal", X]], [K, [O], X], [K, [K], X],
                ["Negation", [K, [K, X, Y]]], ["Reciprocal", [K, ["Reciprocal", [K, X, Y]]]], ["Logarithm", [K, [K, X, Y]]], ["Exponential", [K, [K, X, Y]]],
                ["NthPower", [K, ["NthPower", X, 2]], 3], ["Sine", [K, ["Negation", X]]], ["Cosine", [K, ["Negation", X]]],
                [O, [K, ["Logarithm", ["Multiply", X, Y]]], Z], [O, [K, X], [K, Y]], ["Minus", [K, X], [K, ["Negation", Y]]], ["Divide", [K, X], [K, ["Reciprocal", Y]]],
                ["Power", [K, X], [K, Y]]]
    # binary nodes over two bare constants whose evaluation fails although a rule still applies
    for a, b in ((-2, 3), (0, 0), (0, 1), (-4, -1), (-2, 2), (0, 2.5), (-1, 0)):
        out += [["Power", const(a), const(b)], ["Add", X, ["Power", const(a), const(b)]], ["Power", ["Negation", const(-a)], const(b)]]
    out += [["Divide", const(3), const(0)], ["Divide", const(0), const(0)], ["Minus", ["Divide", const(1), const(0)], const(2)]]
    return out


def f4(tier):
    return dedup(degenerate_arity(tier) + param_pairs(tier) + unary_over_unary(tier) + power_patterns(tier) + nary_patterns(tier) + variable_free(tier)
                 + unary_over_nary_with_constants(tier) + tiny_and_symbolic_folds(tier) + failing_variable_free_with_rules(tier))
