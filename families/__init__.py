"""Families of expression descriptors (DESIGN.md section 3).  Pure data, no smoothmath import."""
import itertools
import json
import random

X, Y, Z = ["var", "x"], ["var", "y"], ["var", "z"]


def V(i=1):
    return ["var", f"v{i}"]


def P(i=1):
    """arbitrary value that is undefined exactly when w_i = 0"""
    return ["Divide", ["var", f"v{i}"], ["var", f"w{i}"]]


def A(i=1, var="x"):
    """value a_i*x + b_i, partial a_i: the chain-rule induction hypothesis"""
    return ["Add", ["Multiply", ["var", f"a{i}"], ["var", var]], ["var", f"b{i}"]]


def C(i=1):
    return ["const", ["sym", f"c{i}"]]


NS_POWER = {"quick": [1, 2, 3, 5], "thorough": [1, 2, 3, 4, 5, 6]}
NS_POWER_RICH = {"quick": [8], "thorough": [8, 9]}
NS_ROOT = {"quick": [1, 2, 3, 4, 5], "thorough": [1, 2, 3, 4, 5, 6, 7]}
NS_ROOT_RICH = {"quick": [8, 9], "thorough": [8, 9, 12, 16]}      # node lemmas only (nesting them gives polynomials of degree 81+)
BASES_EXP = {"quick": [None, 2, 0.5, 1], "thorough": [None, 2, 0.5, 1, 10, 2.5]}
BASES_LOG = {"quick": [None, 2, 0.5], "thorough": [None, 2, 0.5, 10, 2.5]}


def unary_variants(c, tier="thorough", rich=False):
    out = [["Negation", c], ["Reciprocal", c], ["Cosine", c], ["Sine", c]]
    for n in NS_POWER[tier] + (NS_POWER_RICH[tier] if rich else []):
        out.append(["NthPower", c, n])
    for n in NS_ROOT[tier] + (NS_ROOT_RICH[tier] if rich else []):
        out.append(["NthRoot", c, n])
    for b in BASES_EXP[tier]:
        out.append(["Exponential", c] if b is None else ["Exponential", c, b])
    for b in BASES_LOG[tier]:
        out.append(["Logarithm", c] if b is None else ["Logarithm", c, b])
    return out


def f1(child, tier="thorough"):
    """node lemmas: every constructor, every parameter choice, over generic children child(i)"""
    out = []
    out += unary_variants(child(1), tier, rich=True)
    for K in ("Minus", "Divide", "Power"):
        out.append([K, child(1), child(2)])
    for K in ("Add", "Multiply"):
        out.append([K])
        out.append([K, child(1)])
        out.append([K, child(1), child(2)])
        out.append([K, child(1), child(2), child(3)])
        if tier == "thorough":
            out.append([K, child(1), child(2), child(3), child(4)])
    return out


def f1_mixed(tier="thorough"):
    """node lemmas where exactly one child may be undefined (P) and the others are plain values (V)"""
    out = []
    for K in ("Minus", "Divide", "Power"):
        out.append([K, P(1), V(2)])
        out.append([K, V(1), P(2)])
    for K in ("Add", "Multiply"):
        for pos in range(3):
            kids = [V(1), V(2), V(3)]
            kids[pos] = P(pos + 1)
            out.append([K] + kids)
    # symbolic-base and symbolic-constant single-node lemmas
    return out


def f1_shared(tier="thorough"):
    """the same child object in two argument positions (DAG sharing)"""
    s = ["share", "s", ["Multiply", X, Y]]
    t = ["share", "t", ["Sine", X]]
    out = []
    for K in ("Minus", "Divide", "Power", "Add", "Multiply"):
        out.append([K, s, s])
        out.append([K, t, ["Cosine", t]])
    out.append(["Add", s, ["Multiply", s, s], ["NthPower", s, 3]])
    out.append(["Multiply", ["Exponential", t], ["Logarithm", ["Add", t, ["const", 2]]], t])
    out.append(["Divide", ["NthRoot", s, 3], ["Add", s, ["const", 1]]])
    # a shared node that can itself be outside its domain, and structurally equal but distinct operands of a binary node
    u = ["share", "u", ["Logarithm", X, 2]]
    r = ["share", "r", ["Reciprocal", ["Minus", X, ["const", 1]]]]
    out.append(["Add", ["Multiply", ["const", 2], u], ["const", 1]])
    out.append(["Multiply", u, r, Y])
    out.append(["Power", ["Add", X, ["const", 1]], ["Add", X, ["const", 1]]])
    out.append(["Minus", ["NthPower", X, 2], ["NthPower", X, 2]])
    out.append(["Divide", ["Sine", ["Multiply", X, Y]], ["Sine", ["Multiply", X, Y]]])
    # ... and of n-ary nodes (equal, distinct, each with a sub-tree of its own that holds cached values)
    out.append(["Multiply", ["NthPower", X, 2], ["NthPower", X, 2]])
    out.append(["Add", ["Sine", ["Multiply", X, Y]], ["Sine", ["Multiply", X, Y]], Y])
    out.append(["Multiply", ["Exponential", ["Negation", X]], Y, ["Exponential", ["Negation", X]], ["Exponential", ["Negation", X]]])
    out.append(["Add", ["Reciprocal", ["Add", X, Y]], ["Reciprocal", ["Add", X, Y]]])
    return out


def sandwiches(d, second="rev"):
    """warm-up sequences in which the MAIN point comes first: the root is evaluated at the main point (the very same Point object, or an equal
    one), then the caches below it are refilled at another point q through a different entry point or through a shared sub-expression object, and
    only then the operation under test runs at the main point again"""
    import re as _re
    keys = sorted(set(_re.findall(r'"share", "(\w+)"', json.dumps(d))))
    out = [[["eval", "root", ""], [second, "root", "q"]],
           [["eval", "root", "="], ["fwd" if second != "fwd" else "rev", "root", "q"]],
           [["eval", "root", ""], ["eval", "root", "q"], ["fwd_early", "root", "q"]]]
    for k in keys:
        out.append([["eval", "root", ""], ["eval", k, "q"]])
        out.append([["eval", k, ""], ["eval", "root", "q"], ["eval", k, "q"]])
    return out


def level1(tier="thorough"):
    out = []
    out += unary_variants(X, tier)
    for K in ("Minus", "Divide", "Power"):
        out.append([K, X, Y])
    for K in ("Add", "Multiply"):
        out += [[K], [K, X], [K, X, Y]]
    for cv in (0, 1, -1, 2, 0.5):
        out.append(["const", cv])
    out += [X, Y]
    return out


SAME_KIND = ("NthPower", "NthRoot", "Exponential", "Logarithm", "Negation", "Reciprocal", "const", "Add", "Multiply")


def f2(tier="thorough"):
    """every parent over every level-1 child kind at every position"""
    L1 = level1(tier)
    shapes = []
    for c in L1:
        shapes += unary_variants(c, tier)
    for K in ("Minus", "Divide", "Power"):
        for c in L1:
            shapes.append([K, c, Y])
            shapes.append([K, Y, c])
            shapes.append([K, c, c])
    for K in ("Add", "Multiply"):
        for c in L1:
            shapes.append([K, c, Y])
            shapes.append([K, Y, c, X])
        for c1, c2 in itertools.product(L1, L1):
            if c1[0] == c2[0] and c1[0] in SAME_KIND:
                shapes.append([K, c1, c2])
    return dedup(shapes)


def f2_quick(k=6, offset=0):
    """stratified subset of f2: every (parent kind, child kind) pair keeps at least one representative"""
    full = f2("quick")
    buckets = {}
    for s in full:
        key = (s[0], tuple(sorted({c[0] for c in s[1:] if isinstance(c, list)})))
        buckets.setdefault(key, []).append(s)
    out = []
    for key in sorted(buckets, key=str):
        b = buckets[key]
        out += b[offset % max(1, min(k, len(b)))::k] if len(b) > k else b[:1]
    return out


def f3(tier="thorough"):
    """chains K1(K2(K3(x))) of unary constructors, one representative per parameter parity class"""
    ks = [["Negation"], ["Reciprocal"], ["Sine"], ["Cosine"], ["NthPower", 2], ["NthPower", 3], ["NthRoot", 2],
          ["NthRoot", 3], ["Exponential"], ["Exponential", 2], ["Logarithm"], ["Logarithm", 2]]
    out = []
    for a, b, c in itertools.product(ks, ks, ks):
        d = X
        for k in (c, b, a):
            d = [k[0], d] + k[1:]
        out.append(d)
    return out


def random_tree(rng, size, names=("x", "y", "z")):
    if size <= 1:
        r = rng.random()
        if r < 0.7:
            return ["var", rng.choice(names)]
        return ["const", rng.choice([0, 1, -1, 2, 3, -2, 0.5, 2.5])]
    k = rng.choice(["Negation", "Reciprocal", "Sine", "Cosine", "NthPower", "NthRoot", "Exponential", "Logarithm",
                    "Minus", "Divide", "Power", "Add", "Multiply", "Add", "Multiply"])
    if k in ("Negation", "Reciprocal", "Sine", "Cosine"):
        return [k, random_tree(rng, size - 1, names)]
    if k in ("NthPower", "NthRoot"):
        return [k, random_tree(rng, size - 1, names), rng.choice([1, 2, 3, 4, 5])]
    if k in ("Exponential", "Logarithm"):
        b = rng.choice([None, 2, 0.5, 10])
        c = random_tree(rng, size - 1, names)
        return [k, c] if b is None else [k, c, b]
    arity = 2 if k in ("Minus", "Divide", "Power") else rng.choice([2, 2, 3])
    rest = size - 1
    parts = []
    for i in range(arity):
        s = max(1, rest // (arity - i)) if i < arity - 1 else max(1, rest)
        s = rng.randint(1, max(1, s))
        parts.append(s)
        rest -= s
    return [k] + [random_tree(rng, s, names) for s in parts]


def f5(seed, count, lo=5, hi=12):
    rng = random.Random(seed)
    return [random_tree(rng, rng.randint(lo, hi)) for _ in range(count)]


def dedup(shapes):
    seen, out = set(), []
    for s in shapes:
        k = json.dumps(s)
        if k not in seen:
            seen.add(k)
            out.append(s)
    return out
