"""Reference semantics: denotation, strict domain, textbook differentiator, 50-digit concrete evaluation.

Written from the mathematics (DESIGN.md section 4), never reading smoothmath internals.
"""
import fractions
import math

import mpmath
import z3

from symreal import core as sx

mpmath.mp.dps = 50


def num_term(v, env):
    """z3 real term of a number spec (plain number | ["sym", name] | ["q", n, d])"""
    if isinstance(v, (list, tuple)):
        if v[0] == "sym":
            t = env[v[1]]
            return z3.ToReal(t) if z3.is_int(t) else t
        if v[0] == "q":
            return z3.Q(v[1], v[2])
        if v[0] == "hex":
            return sx.Q(float.fromhex(v[1]))
        raise KeyError(v[0])
    return sx.R(v)


def den(d, env, dom):
    """denotation of descriptor d as a z3 term over env (variable/symbol name -> z3 const); appends the
    strict-domain conjuncts of every sub-expression to dom"""
    T = sx.theory()
    k = d[0]
    if k == "share":
        return den(d[2], env, dom)
    if k == "var":
        return env[d[1]]
    if k == "const":
        return num_term(d[1], env)
    if k == "Add":
        return z3.Sum([den(c, env, dom) for c in d[1:]]) if len(d) > 1 else z3.RealVal(0)
    if k == "Multiply":
        r = None
        for c in d[1:]:
            t = den(c, env, dom)
            r = t if r is None else r * t
        return r if r is not None else z3.RealVal(1)
    if k == "Minus":
        return den(d[1], env, dom) - den(d[2], env, dom)
    if k == "Negation":
        return -den(d[1], env, dom)
    if k == "Divide":
        a, b = den(d[1], env, dom), den(d[2], env, dom)
        dom.append(b != 0)
        return a / b
    if k == "Reciprocal":
        a = den(d[1], env, dom)
        dom.append(a != 0)
        return 1 / a
    if k == "Power":
        a, b = den(d[1], env, dom), den(d[2], env, dom)
        dom.append(a > 0)
        return T.pow(a, b)
    if k == "NthPower":
        a = den(d[1], env, dom)
        n = d[2]
        if isinstance(n, float):
            n = int(n)
        return sx.ipow(a, n)
    if k == "NthRoot":
        a = den(d[1], env, dom)
        n = d[2]
        if isinstance(n, float):
            n = int(n)
        if n >= 2:
            dom.append(a != 0)
        if n % 2 == 0:
            dom.append(a > 0)
        return T.root(n, a)
    if k == "Exponential":
        a = den(d[1], env, dom)
        b = num_term(d[2], env) if len(d) > 2 else sx.Q(math.e)
        return T.pow(b, a)
    if k == "Logarithm":
        a = den(d[1], env, dom)
        dom.append(a > 0)
        b = num_term(d[2], env) if len(d) > 2 else sx.Q(math.e)
        return T.ln(a) / T.ln(b)
    if k == "Sine":
        return T.sin(den(d[1], env, dom))
    if k == "Cosine":
        return T.cos(den(d[1], env, dom))
    raise KeyError(k)


def denote(d, env):
    dom = []
    t = den(d, env, dom)
    return t, (z3.And(dom) if dom else z3.BoolVal(True))


def ddx(t, x):
    """textbook derivative of a z3 real term with respect to the z3 constant x"""
    T = sx.theory()
    if z3.is_rational_value(t) or z3.is_int_value(t) or z3.is_algebraic_value(t):
        return z3.RealVal(0)
    if z3.is_const(t) and t.decl().kind() == z3.Z3_OP_UNINTERPRETED:
        return z3.RealVal(1) if t.eq(x) else z3.RealVal(0)
    k = t.decl().kind()
    ch = t.children()
    if k == z3.Z3_OP_ADD:
        return z3.Sum([ddx(c, x) for c in ch])
    if k == z3.Z3_OP_SUB:
        r = ddx(ch[0], x)
        for c in ch[1:]:
            r = r - ddx(c, x)
        return r
    if k == z3.Z3_OP_UMINUS:
        return -ddx(ch[0], x)
    if k == z3.Z3_OP_MUL:
        terms = []
        for i, c in enumerate(ch):
            p = ddx(c, x)
            for j, o in enumerate(ch):
                if j != i:
                    p = p * o
            terms.append(p)
        return z3.Sum(terms)
    if k == z3.Z3_OP_DIV:
        a, b = ch
        return ddx(a, x) / b - a * ddx(b, x) / (b * b)
    if k == z3.Z3_OP_POWER and z3.is_rational_value(ch[1]) and ch[1].denominator_as_long() == 1:
        n = ch[1].numerator_as_long()
        return n * sx.ipow(ch[0], n - 1) * ddx(ch[0], x)
    if k == z3.Z3_OP_TO_REAL:
        return z3.RealVal(0)
    if k == z3.Z3_OP_UNINTERPRETED:
        name = t.decl().name()
        if name == "ln":
            return ddx(ch[0], x) / ch[0]
        if name == "sin":
            return T.cos(ch[0]) * ddx(ch[0], x)
        if name == "cos":
            return -T.sin(ch[0]) * ddx(ch[0], x)
        if name == "pow":
            a, b = ch
            return b * T.pow(a, b - 1) * ddx(a, x) + T.ln(a) * t * ddx(b, x)
        if name == "root":
            n = ch[0].as_long()
            a = ch[1]
            return ddx(a, x) / (n * sx.ipow(t, n - 1))
    raise KeyError(str(t.decl()))


# ---------------------------------------------------------------- concrete (mpmath) evaluation of z3 terms

class Undefined(Exception):
    pass


E_AS_EXACT = [False]     # self-test: read the double nearest to e as the number e ("the default base denotes e")


def mp_term(t, val):
    """evaluate a z3 real/int term at val: dict z3-const-name -> mpmath number (50 digits)"""
    if z3.is_rational_value(t):
        if E_AS_EXACT[0] and t.numerator_as_long() == sx.E_FLOAT.numerator and t.denominator_as_long() == sx.E_FLOAT.denominator:
            return +mpmath.e
        return mpmath.mpf(t.numerator_as_long()) / mpmath.mpf(t.denominator_as_long())
    if z3.is_int_value(t):
        return mpmath.mpf(t.as_long())
    if z3.is_algebraic_value(t):
        a = t.approx(40)
        return mpmath.mpf(a.numerator_as_long()) / mpmath.mpf(a.denominator_as_long())
    k = t.decl().kind()
    if k == z3.Z3_OP_UNINTERPRETED and t.num_args() == 0:
        return mpmath.mpf(val[t.decl().name()])
    ch = [mp_term(c, val) for c in t.children()] if k not in (z3.Z3_OP_ITE,) else None
    if k == z3.Z3_OP_ADD:
        return mpmath.fsum(ch)
    if k == z3.Z3_OP_SUB:
        r = ch[0]
        for c in ch[1:]:
            r = r - c
        return r
    if k == z3.Z3_OP_UMINUS:
        return -ch[0]
    if k == z3.Z3_OP_MUL:
        r = mpmath.mpf(1)
        for c in ch:
            r = r * c
        return r
    if k in (z3.Z3_OP_DIV, z3.Z3_OP_IDIV):
        if ch[1] == 0:
            raise Undefined("division by zero in oracle term")
        return ch[0] / ch[1] if k == z3.Z3_OP_DIV else mpmath.floor(ch[0] / ch[1])
    if k == z3.Z3_OP_POWER:
        if ch[0] == 0 and ch[1] < 0:
            raise Undefined("0 to a negative power in oracle term")
        return mpmath.power(ch[0], ch[1])
    if k == z3.Z3_OP_TO_REAL:
        return ch[0]
    if k == z3.Z3_OP_TO_INT:
        return mpmath.floor(ch[0])
    if k == z3.Z3_OP_ITE:
        c = mp_bool(t.arg(0), val)
        return mp_term(t.arg(1) if c else t.arg(2), val)
    if k == z3.Z3_OP_UNINTERPRETED:
        name = t.decl().name()
        if name == "ln":
            if ch[0] <= 0:
                raise Undefined("ln of non-positive")
            return mpmath.log(ch[0])
        if name == "pow":
            if ch[0] <= 0:
                raise Undefined("pow of non-positive base")
            return mpmath.power(ch[0], ch[1])
        if name == "root":
            n = int(ch[0])
            a = ch[1]
            if a >= 0:
                return mpmath.root(a, n)
            if n % 2 == 1:
                return -mpmath.root(-a, n)
            raise Undefined("even root of negative")
        if name == "sin":
            return mpmath.sin(ch[0])
        if name == "cos":
            return mpmath.cos(ch[0])
    raise KeyError(f"mp_term: {t.decl()}")


def mp_bool(t, val):
    k = t.decl().kind()
    if k == z3.Z3_OP_TRUE:
        return True
    if k == z3.Z3_OP_FALSE:
        return False
    if k == z3.Z3_OP_AND:
        return all(mp_bool(c, val) for c in t.children())
    if k == z3.Z3_OP_OR:
        return any(mp_bool(c, val) for c in t.children())
    if k == z3.Z3_OP_NOT:
        return not mp_bool(t.arg(0), val)
    if k == z3.Z3_OP_IMPLIES:
        return (not mp_bool(t.arg(0), val)) or mp_bool(t.arg(1), val)
    if k == z3.Z3_OP_DISTINCT:
        a, b = mp_term(t.arg(0), val), mp_term(t.arg(1), val)
        return a != b
    if k in (z3.Z3_OP_EQ, z3.Z3_OP_LE, z3.Z3_OP_LT, z3.Z3_OP_GE, z3.Z3_OP_GT):
        if z3.is_bool(t.arg(0)):
            return mp_bool(t.arg(0), val) == mp_bool(t.arg(1), val)
        a, b = mp_term(t.arg(0), val), mp_term(t.arg(1), val)
        return {z3.Z3_OP_EQ: a == b, z3.Z3_OP_LE: a <= b, z3.Z3_OP_LT: a < b, z3.Z3_OP_GE: a >= b,
                z3.Z3_OP_GT: a > b}[k]
    if k == z3.Z3_OP_IS_INT:
        a = mp_term(t.arg(0), val)
        return a == mpmath.floor(a)
    if k == z3.Z3_OP_UNINTERPRETED and t.num_args() == 0:
        return bool(val.get(t.decl().name(), False))
    raise KeyError(f"mp_bool: {t.decl()}")


def free_consts(t, acc=None):
    acc = acc if acc is not None else {}
    seen = set()

    def walk(u):
        if u.get_id() in seen:
            return
        seen.add(u.get_id())
        if z3.is_const(u) and u.decl().kind() == z3.Z3_OP_UNINTERPRETED:
            acc[u.decl().name()] = u
        for c in u.children():
            walk(c)
    walk(t)
    return acc


def is_ground_term(t):
    return not free_consts(t)


def close(a, b, scale=None, rel=1e-9):
    a, b = mpmath.mpf(a), mpmath.mpf(b)
    s = 1 + abs(a) + abs(b) + (abs(scale) if scale is not None else 0)
    return abs(a - b) <= rel * s
