"""hash() as an uninterpreted function (C12): shadowed in the smoothmath namespaces so that an object's hash is a term.

H respects Python's numeric invariant (numerically equal numbers hash equal: the argument is the real value); tuples are
hashed component-wise by folding an uninterpreted pairing function, so 'a == b implies hash(a) == hash(b)' is a congruence
query over the path condition."""
import builtins
import zlib

import z3

from symreal import core as sx

HNUM = z3.Function("hash_num", z3.RealSort(), z3.IntSort())
HPAIR = z3.Function("hash_pair", z3.IntSort(), z3.IntSort(), z3.IntSort())
HSTR = z3.Function("hash_str", z3.StringSort(), z3.IntSort())


def term(x):
    if isinstance(x, sx.SymInt):
        return x.t
    if isinstance(x, bool):
        return HNUM(z3.RealVal(int(x)))
    if isinstance(x, builtins.int):
        return z3.IntVal(x)
    raise sx.Unsupported(f"hash term of {type(x).__name__}")


def sym_hash(x):
    from symreal import symstr
    if isinstance(x, (sx.SymReal, sx.SymInt)):
        return sx.SymInt(HNUM(sx.R(x)))
    if isinstance(x, bool) or isinstance(x, (builtins.int, builtins.float)):
        if isinstance(x, builtins.float) and (x != x or x in (float("inf"), float("-inf"))):
            return sx.SymInt(z3.IntVal(builtins.hash(x)))
        return sx.SymInt(HNUM(sx.R(x)))
    if isinstance(x, symstr.SymStr):
        return sx.SymInt(HSTR(x.t))
    if isinstance(x, str):
        return sx.SymInt(HSTR(z3.StringVal(x)))
    if x is None:
        return sx.SymInt(z3.IntVal(0))
    if isinstance(x, tuple):
        acc = z3.IntVal(len(x))
        for c in x:
            acc = HPAIR(acc, sym_hash(c).t)
        return sx.SymInt(acc)
    if isinstance(x, frozenset):
        raise sx.Unsupported("hash(frozenset) of symbolic content")
    h = type(x).__hash__
    if h is None:
        raise TypeError(f"unhashable type: '{type(x).__name__}'")
    r = h(x)
    if isinstance(r, sx.SymInt):
        return r
    return sx.SymInt(z3.IntVal(r))


def inject_hash():
    import sys
    for name, mod in list(sys.modules.items()):
        if name == "smoothmath" or name.startswith("smoothmath."):
            mod.__dict__["hash"] = sym_hash
