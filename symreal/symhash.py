"""hash() as an uninterpreted function (C12): shadowed in the smoothmath namespaces so that an object's hash is a term.

H respects Python's numeric invariant (numerically equal numbers hash equal: the argument is the real value); tuples are
hashed component-wise by folding an uninterpreted pairing function, so 'a == b implies hash(a) == hash(b)' is a congruence
query over the path condition."""
import builtins
import zlib

import z3

from symreal import core as sx

HNUM = z3.Function("hash_num", z3.RealSort(), z3.IntSort())
HPAIR = z3.Function("hash_pair", z3.IntSort(), z3.IntSort(), z3.IntSort())
HSTR = z3.Function("hash_str", z3.StringSort(), z3.IntSort())


HELEM = z3.Function("hash_elem", z3.IntSort(), z3.IntSort())
HSET = z3.Function("hash_set", z3.IntSort(), z3.IntSort())
HMIX = z3.Function("hash_mix", z3.IntSort(), z3.IntSort(), z3.IntSort(), z3.IntSort())     # opaque integer arithmetic on hash values (xor, shifts, ...)


class HashInt(builtins.int):
    """the value of the shadowed hash(): a TERM for the solver.  For the interpreter it is the integer 0, so that real dict / set lookups keyed by
    expressions (code under test may do that) are legal: every lookup collides and falls through to ==, which is a solver-checked fork."""

    def __new__(cls, t):
        o = builtins.int.__new__(cls, 0)
        o.t = t
        return o

    def _sym(s):
        return sx.SymInt(s.t)

    def __eq__(s, o):
        return s._sym() == (o._sym() if isinstance(o, HashInt) else o)

    def __ne__(s, o):
        return s._sym() != (o._sym() if isinstance(o, HashInt) else o)

    def __hash__(s):
        return 0

    def __repr__(s):
        return f"<hash {s.t}>"

    def _mix(s, o, code, swap=False):
        ot = o.t if isinstance(o, (HashInt, sx.SymInt)) else (z3.IntVal(int(o)) if isinstance(o, builtins.int) else None)
        if ot is None:
            return NotImplemented
        return HashInt(HMIX(z3.IntVal(code), ot, s.t) if swap else HMIX(z3.IntVal(code), s.t, ot))

    def __xor__(s, o): return s._mix(o, 1)
    def __rxor__(s, o): return s._mix(o, 1, True)
    def __add__(s, o): return s._mix(o, 2)
    def __radd__(s, o): return s._mix(o, 2, True)
    def __mul__(s, o): return s._mix(o, 3)
    def __rmul__(s, o): return s._mix(o, 3, True)
    def __and__(s, o): return s._mix(o, 4)
    def __or__(s, o): return s._mix(o, 5)
    def __mod__(s, o): return s._mix(o, 6)
    def __sub__(s, o): return s._mix(o, 7)
    def __lshift__(s, o): return s._mix(o, 8)
    def __rshift__(s, o): return s._mix(o, 9)


def term(x):
    if isinstance(x, HashInt):
        return x.t
    if isinstance(x, sx.SymInt):
        return x.t
    if isinstance(x, bool):
        return HNUM(z3.RealVal(int(x)))
    if isinstance(x, builtins.int):
        return z3.IntVal(x)
    raise sx.Unsupported(f"hash term of {type(x).__name__}")


def sym_hash(x):
    from symreal import symstr
    if isinstance(x, HashInt):
        return x                                   # hash(int) of a hash value: itself (Python's own rule for small ints, opaque here)
    if isinstance(x, (sx.SymReal, sx.SymInt)):
        return HashInt(HNUM(sx.R(x)))
    if isinstance(x, bool) or isinstance(x, (builtins.int, builtins.float)):
        if isinstance(x, builtins.float) and (x != x or x in (float("inf"), float("-inf"))):
            return HashInt(z3.IntVal(builtins.hash(x)))
        return HashInt(HNUM(sx.R(x)))
    if isinstance(x, symstr.SymStr):
        return HashInt(HSTR(x.t))
    if isinstance(x, str):
        return HashInt(HSTR(z3.StringVal(x)))
    if x is None:
        return HashInt(z3.IntVal(0))
    if isinstance(x, tuple):
        acc = z3.IntVal(len(x))
        for c in x:
            acc = HPAIR(acc, sym_hash(c).t)
        return HashInt(acc)
    if isinstance(x, frozenset) or type(x).__name__ in ("NDFrozenSet",):
        # order-insensitive: a sum (commutative for the solver) of an opaque function of the element hashes; elements are de-duplicated by
        # identical hash TERM only (a set with symbolically-equal members is over-approximated: a spurious model is weeded out by the replay)
        seen, parts = set(), []
        for c in list(x):
            t = sym_hash(c).t
            k = t.sexpr()
            if k not in seen:
                seen.add(k)
                parts.append(HELEM(t))
        return HashInt(HSET(z3.Sum(parts) if parts else z3.IntVal(0)))
    h = type(x).__hash__
    if h is None:
        raise TypeError(f"unhashable type: '{type(x).__name__}'")
    r = h(x)
    if isinstance(r, HashInt):
        return r
    if isinstance(r, sx.SymInt):
        return HashInt(r.t)
    return HashInt(z3.IntVal(r))


def inject_hash():
    import sys
    for name, mod in list(sys.modules.items()):
        if name == "smoothmath" or name.startswith("smoothmath."):
            mod.__dict__["hash"] = sym_hash
