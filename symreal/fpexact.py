"""Part E (DESIGN.md 6/C01): IEEE-754 exactness on dyadic inputs for the rational fragment.

The real-arithmetic trace of the code (a z3 term over + - * /) is compared with the reference trace (one correctly rounded
operation per node of the tree, in argument order).  Traces that are identical up to fp-exact identities (0 + a, 1 * a, a / 1,
commutativity of a single + or *) denote the same sequence of float operations.  Otherwise z3 (QF_FP) is asked for small
integer / dyadic double inputs on which every operation of the REFERENCE is exact but the two traces round differently."""
import z3

RNE, RTN, RTP = z3.RNE(), z3.RTN(), z3.RTP()
F64 = z3.Float64()


def is_rational_fragment(t):
    seen = set()

    def ok(u):
        if u.get_id() in seen:
            return True
        seen.add(u.get_id())
        if z3.is_rational_value(u) or z3.is_int_value(u):
            return True
        if z3.is_const(u) and u.decl().kind() == z3.Z3_OP_UNINTERPRETED:
            return True
        k = u.decl().kind()
        if k in (z3.Z3_OP_ADD, z3.Z3_OP_SUB, z3.Z3_OP_MUL, z3.Z3_OP_DIV, z3.Z3_OP_UMINUS):
            return all(ok(c) for c in u.children())
        return False
    return ok(t)


def is_polynomial_trace(t):
    """only + - * (and unary minus) over inputs and numerals: exact in binary64 whenever all intermediates are integers below 2^53"""
    seen = set()

    def ok(u):
        if u.get_id() in seen:
            return True
        seen.add(u.get_id())
        if z3.is_rational_value(u):
            return u.denominator_as_long() == 1 or (u.denominator_as_long() & (u.denominator_as_long() - 1)) == 0
        if z3.is_int_value(u):
            return True
        if z3.is_const(u) and u.decl().kind() == z3.Z3_OP_UNINTERPRETED:
            return True
        if u.decl().kind() in (z3.Z3_OP_ADD, z3.Z3_OP_SUB, z3.Z3_OP_MUL, z3.Z3_OP_UMINUS):
            return all(ok(c) for c in u.children())
        return False
    return ok(t)


def _num(u):
    if z3.is_rational_value(u):
        return (u.numerator_as_long(), u.denominator_as_long())
    if z3.is_int_value(u):
        return (u.as_long(), 1)
    return None


def key(t):
    """canonical key of the float-operation sequence a real term denotes (left-associated n-ary nodes)"""
    n = _num(t)
    if n is not None:
        return ("num", n)
    if z3.is_const(t):
        return ("var", t.decl().name())
    k = t.decl().kind()
    ch = t.children()
    if k == z3.Z3_OP_UMINUS:
        return ("neg", key(ch[0]))
    if k in (z3.Z3_OP_ADD, z3.Z3_OP_MUL, z3.Z3_OP_SUB, z3.Z3_OP_DIV):
        op = {z3.Z3_OP_ADD: "+", z3.Z3_OP_MUL: "*", z3.Z3_OP_SUB: "-", z3.Z3_OP_DIV: "/"}[k]
        acc = key(ch[0])
        for c in ch[1:]:
            kc = key(c)
            unit = ("num", (0, 1)) if op in "+-" else ("num", (1, 1))
            if kc == unit:                       # a + 0, a - 0, a * 1, a / 1 are exact
                continue
            if acc == unit and op in "+*":       # 0 + a, 1 * a are exact
                acc = kc
                continue
            pair = sorted([acc, kc], key=repr) if op in "+*" else [acc, kc]
            acc = (op, pair[0], pair[1])
        return acc
    return ("?", t.sexpr())


def to_fp(t, env, exact):
    """FP64 term (round-to-nearest-even) of a real term; appends to `exact` the condition that each operation is exact"""
    n = _num(t)
    if n is not None:
        return z3.FPVal(n[0] / n[1], F64)
    if z3.is_const(t):
        return env[t.decl().name()]
    k = t.decl().kind()
    ch = t.children()
    if k == z3.Z3_OP_UMINUS:
        return z3.fpNeg(to_fp(ch[0], env, exact))
    f = {z3.Z3_OP_ADD: z3.fpAdd, z3.Z3_OP_MUL: z3.fpMul, z3.Z3_OP_SUB: z3.fpSub, z3.Z3_OP_DIV: z3.fpDiv}[k]
    acc = to_fp(ch[0], env, exact)
    for c in ch[1:]:
        b = to_fp(c, env, exact)
        if exact is not None:
            exact.append(z3.fpEQ(f(RTN, acc, b), f(RTP, acc, b)))
            if k == z3.Z3_OP_DIV:
                exact.append(z3.Not(z3.fpIsZero(b)))
        acc = f(RNE, acc, b)
    return acc


def pc_to_fp(c, env):
    """path-condition conjunct (comparison of rational-fragment terms, possibly negated) as an FP constraint; None if not translatable"""
    k = c.decl().kind()
    if k == z3.Z3_OP_NOT:
        inner = pc_to_fp(c.arg(0), env)
        return None if inner is None else z3.Not(inner)
    if k == z3.Z3_OP_AND:
        parts = [pc_to_fp(x, env) for x in c.children()]
        return None if any(p is None for p in parts) else z3.And(parts)
    if k == z3.Z3_OP_OR:
        parts = [pc_to_fp(x, env) for x in c.children()]
        return None if any(p is None for p in parts) else z3.Or(parts)
    if k in (z3.Z3_OP_EQ, z3.Z3_OP_DISTINCT, z3.Z3_OP_LE, z3.Z3_OP_LT, z3.Z3_OP_GE, z3.Z3_OP_GT):
        a, b = c.arg(0), c.arg(1)
        if not (z3.is_real(a) and is_rational_fragment(a) and is_rational_fragment(b)):
            return None
        fa, fb = to_fp(a, env, None), to_fp(b, env, None)
        return {z3.Z3_OP_EQ: z3.fpEQ, z3.Z3_OP_DISTINCT: z3.fpNEQ, z3.Z3_OP_LE: z3.fpLEQ, z3.Z3_OP_LT: z3.fpLT, z3.Z3_OP_GE: z3.fpGEQ,
                z3.Z3_OP_GT: z3.fpGT}[k](fa, fb)
    if z3.is_true(c):
        return z3.BoolVal(True)
    return None


def _build(code_t, ref_t, names, magnitude, scale, pc):
    env = {n: z3.FP("fp_" + n, F64) for n in names}
    s = z3.Solver()
    for n, v in env.items():
        s.add(z3.Not(z3.fpIsNaN(v)), z3.Not(z3.fpIsInf(v)), z3.fpLEQ(z3.fpAbs(v), z3.FPVal(float(magnitude), F64)))
        sv = z3.fpMul(RNE, v, z3.FPVal(float(scale), F64))
        s.add(z3.fpEQ(z3.fpRoundToIntegral(RNE, sv), sv))            # a multiple of 1/scale
    for c in pc:
        f = pc_to_fp(c, env)
        if f is None:
            return None, env
        s.add(f)
    exact = []
    r = to_fp(ref_t, env, exact)
    c = to_fp(code_t, env, None)
    s.add(*exact)
    s.add(z3.Not(z3.fpIsNaN(r)), z3.Not(z3.fpIsInf(r)))
    s.add(z3.Not(z3.fpEQ(r, c)))
    return s, env


def _cvc5(s, names, timeout_ms):
    import re
    import struct
    import cvc5
    txt = "(set-logic QF_FP)\n(set-option :produce-models true)\n" + s.to_smt2() + "\n(get-model)\n"
    slv = cvc5.Solver()
    slv.setOption("tlimit-per", str(timeout_ms))
    slv.setOption("produce-models", "true")
    sm = cvc5.SymbolManager(slv)
    p = cvc5.InputParser(slv, sm)
    p.setStringInput(cvc5.InputLanguage.SMT_LIB_2_6, txt, "fpexact")
    verdict, model = "unknown", ""
    while True:
        cmd = p.nextCommand()
        if cmd.isNull():
            break
        name = cmd.getCommandName()
        if name == "get-model" and verdict != "sat":
            break
        out = str(cmd.invoke(slv, sm))
        if name == "check-sat":
            verdict = out.strip() if out.strip() in ("sat", "unsat") else "unknown"
        elif name == "get-model":
            model = out
    if verdict != "sat":
        return verdict, None
    vals = {}
    for m in re.finditer(r"define-fun fp_(\w+) \(\) \(_ FloatingPoint 11 53\) \(fp #b([01]) #b([01]{11}) #b([01]{52})\)", model):
        bits = int(m.group(2) + m.group(3) + m.group(4), 2)
        vals[m.group(1)] = struct.unpack(">d", bits.to_bytes(8, "big"))[0]
    if set(vals) != set(names):
        return "unknown", None
    return "sat", vals


def find_inexact_witness(code_t, ref_t, names, timeout_ms=60000, magnitude=1024, scale=1, pc=()):
    """inputs (small integers, then multiples of 1/16) on which every reference operation is exact but code and reference differ.
    Decided by cvc5 on z3's SMT-LIB2 export (cvc5 is 4-5x faster than z3 on these QF_FP queries); z3 if cvc5 is not available."""
    verdicts = []
    for sc in (scale, 16):
        s, env = _build(code_t, ref_t, names, magnitude, sc, pc)
        if s is None:
            return "unknown", None
        try:
            r, vals = _cvc5(s, names, timeout_ms // 2)
        except ImportError:
            s.set("timeout", timeout_ms // 2)
            r = str(s.check())
            vals = {n: _fpval(s.model().eval(v, model_completion=True)) for n, v in env.items()} if r == "sat" else None
        except Exception:  # noqa
            r, vals = "unknown", None
        if r == "sat":
            return "sat", vals
        verdicts.append(r)
    return ("unsat" if all(v == "unsat" for v in verdicts) else "unknown"), None


def _fpval(v):
    import fractions
    r = z3.simplify(z3.fpToReal(v))
    return float(fractions.Fraction(r.numerator_as_long(), r.denominator_as_long()))
