"""Sets whose iteration order is chosen by the solver (C18): every k! order of every iteration site is a path."""
import builtins

from symreal import core as sx

MODE = ["canonical"]


def _key(x):
    return repr(x)


class NDSet(builtins.set):
    def __iter__(self):
        items = sorted(builtins.set.__iter__(self), key=_key)
        if MODE[0] == "canonical" or len(items) <= 1:
            return iter(items)
        return self._free(items)

    def _free(self, items):
        eng = sx.engine()
        while items:
            i = eng.choose(len(items), "setorder") if len(items) > 1 else 0
            yield items.pop(i)

    def pop(self):
        items = sorted(builtins.set.__iter__(self), key=_key)
        if not items:
            raise KeyError("pop from an empty set")
        i = 0
        if MODE[0] != "canonical" and len(items) > 1:
            i = sx.engine().choose(len(items), "setpop")
        builtins.set.remove(self, items[i])
        return items[i]

    # operations that build new sets keep the nondeterministic iteration order
    def union(self, *o):
        return NDSet(builtins.set.union(self, *o))

    def intersection(self, *o):
        return NDSet(builtins.set.intersection(self, *o))

    def difference(self, *o):
        return NDSet(builtins.set.difference(self, *o))

    def copy(self):
        return NDSet(self)

    @staticmethod
    def _other(o):
        import collections.abc as cabc
        if isinstance(o, builtins.set):
            return o
        if isinstance(o, (cabc.KeysView, cabc.ItemsView, builtins.frozenset)):
            return builtins.set(o)
        return None

    def __or__(self, o):
        o = NDSet._other(o)
        return NotImplemented if o is None else NDSet(builtins.set.__or__(self, o))

    def __and__(self, o):
        o = NDSet._other(o)
        return NotImplemented if o is None else NDSet(builtins.set.__and__(self, o))

    def __sub__(self, o):
        o = NDSet._other(o)
        return NotImplemented if o is None else NDSet(builtins.set.__sub__(self, o))

    def __xor__(self, o):
        o = NDSet._other(o)
        return NotImplemented if o is None else NDSet(builtins.set.__xor__(self, o))

    def __rsub__(self, o):
        o = NDSet._other(o)
        return NotImplemented if o is None else NDSet(builtins.set.__sub__(o, self))

    __ror__ = __or__
    __rand__ = __and__
    __rxor__ = __xor__

    def symmetric_difference(self, o):
        return NDSet(builtins.set.symmetric_difference(self, o))


class NDFrozenSet(builtins.frozenset):
    def __iter__(self):
        items = sorted(builtins.frozenset.__iter__(self), key=_key)
        if MODE[0] == "canonical" or len(items) <= 1:
            return iter(items)
        return NDSet._free(self, items)


class _SetMeta(type):
    def __instancecheck__(cls, obj):
        return builtins.isinstance(obj, builtins.set)


_DONE = [False]


def inject_sets():
    """every expression's variable-name set, and every set()/frozenset() built inside smoothmath, iterates in solver-chosen order"""
    import sys
    import smoothmath._private.base_expression.expression as be
    from harness import modes
    for name, mod in list(sys.modules.items()):
        if name == "smoothmath" or name.startswith("smoothmath."):
            mod.__dict__["set"] = NDSet
            mod.__dict__["frozenset"] = NDFrozenSet
    if not _DONE[0]:
        orig = be.Expression.__init__

        def nd_init(self, variable_names, *a, **k):
            orig(self, NDSet(variable_names), *a, **k)
        be.Expression.__init__ = nd_init
        _DONE[0] = True

    def hook(mode):
        MODE[0] = mode
    modes.ORDER_HOOK[0] = hook
