"""Second opinion on a sample of final verification conditions: the query is exported as SMT-LIB2 and re-decided by cvc5 (python wheel)."""
import time


def cvc5_decide(z3_solver, timeout_ms=5000):
    try:
        import cvc5
    except ImportError:
        return "unavailable", 0.0
    txt = "(set-logic ALL)\n" + z3_solver.to_smt2()
    t = time.time()
    try:
        slv = cvc5.Solver()
        slv.setOption("tlimit-per", str(timeout_ms))
        sm = cvc5.SymbolManager(slv)
        p = cvc5.InputParser(slv, sm)
        p.setStringInput(cvc5.InputLanguage.SMT_LIB_2_6, txt, "vc")
        res = "unknown"
        while True:
            cmd = p.nextCommand()
            if cmd.isNull():
                break
            out = cmd.invoke(slv, sm)
            if cmd.getCommandName() == "check-sat":
                res = str(out).strip()
        if "(error" in res or res not in ("sat", "unsat", "unknown"):
            res = "unknown"
        return res, time.time() - t
    except Exception as e:  # noqa
        return "error:" + type(e).__name__, time.time() - t
