"""symreal: symbolic execution of the real smoothmath code over the reals (z3 terms).

See /verif/DESIGN.md section 2.  Public surface:

    from symreal import core as sx
    sx.inject()                      # shadow float/int/math in the smoothmath namespaces, lift constants
    eng, paths = sx.explore(fn)      # re-execution DFS; fn(eng) is run once per feasible path
"""
