"""Symbolic proxies, theory of the elementary functions, path explorer.  (DESIGN.md section 2)

The real smoothmath code is executed on SymReal/SymInt proxies carrying z3 terms; every comparison
is a solver-checked fork.  Nothing of smoothmath is re-implemented here.
"""
import builtins
import fractions
import math as _math
import sys
import threading
import time

import mpmath
import z3

mpmath.mp.dps = 50


class PathAbort(BaseException):
    """infeasible path / exploration control; never caught by code under test (BaseException)."""


class BudgetExhausted(BaseException):
    """the job's time budget is used up: the exploration stops and the job is reported as truncated"""


class Unsupported(BaseException):
    """the Python semantics needed here are not modelled: the path is inconclusive, never a verdict."""


RS, IS = z3.RealSort(), z3.IntSort()
LN = z3.Function("ln", RS, RS)
POW = z3.Function("pow", RS, RS, RS)
ROOT = z3.Function("root", IS, RS, RS)
SIN = z3.Function("sin", RS, RS)
COS = z3.Function("cos", RS, RS)
UF_NAMES = ("ln", "pow", "root", "sin", "cos")

E_FLOAT = fractions.Fraction(_math.e)


def Q(v):
    fr = fractions.Fraction(v)
    return z3.Q(fr.numerator, fr.denominator)


def ground(t):
    """Fraction value of a term that simplifies to a rational numeral, else None."""
    s = z3.simplify(t)
    if z3.is_rational_value(s):
        return fractions.Fraction(s.numerator_as_long(), s.denominator_as_long())
    if z3.is_int_value(s):
        return fractions.Fraction(s.as_long())
    return None


def mp(fr):
    return mpmath.mpf(fr.numerator) / mpmath.mpf(fr.denominator)


def enclosure(term, val):
    eps = abs(val) * mpmath.mpf(10) ** (-35) + mpmath.mpf(10) ** (-45)

    def q(m):
        return z3.Q(int(mpmath.floor(m * 10 ** 42)), 10 ** 42)

    return z3.And(term >= q(val - eps) - z3.Q(1, 10 ** 41), term <= q(val + eps) + z3.Q(1, 10 ** 41))


def is_uf(t, name):
    return z3.is_app(t) and t.decl().kind() == z3.Z3_OP_UNINTERPRETED and t.decl().name() == name and t.num_args() > 0


def factors(t):
    """syntactic multiplicative decomposition: list of (factor, integer exponent)"""
    t = z3.simplify(t, som=False)
    k = t.decl().kind() if z3.is_app(t) else None
    if k == z3.Z3_OP_MUL:
        out = []
        for c in t.children():
            out += factors(c)
        return out
    if k == z3.Z3_OP_DIV:
        return factors(t.arg(0)) + [(f, -e) for f, e in factors(t.arg(1))]
    if k == z3.Z3_OP_POWER and z3.is_rational_value(t.arg(1)) and t.arg(1).denominator_as_long() == 1:
        n = t.arg(1).numerator_as_long()
        if abs(n) <= 64:
            return [(f, e * n) for f, e in factors(t.arg(0))]
    if k == z3.Z3_OP_UMINUS:
        return [(z3.RealVal(-1), 1)] + factors(t.arg(0))
    return [(t, 1)]


def ipow(t, n):
    r = z3.RealVal(1)
    first = True
    for _ in range(abs(n)):
        r = t if first else r * t
        first = False
    return r if n >= 0 else 1 / r


PARAM_NAMES = set()     # names of symbolic constants / parameters (as opposed to point coordinates); set by the harness


def _only_params(t):
    names = set()
    seen = set()

    def walk(u):
        if u.get_id() in seen:
            return
        seen.add(u.get_id())
        if z3.is_const(u) and u.decl().kind() == z3.Z3_OP_UNINTERPRETED:
            names.add(u.decl().name())
        for c in u.children():
            walk(c)
    walk(t)
    return bool(names) and names <= PARAM_NAMES


AXIOM_SCHEMAS = [
    "a>1 -> ln a>0; 0<a<1 -> ln a<0; a=1 -> ln a=0; ln(float e)=1 (the default base denotes e)",
    "ln injective on positive arguments among the ln-terms present",
    "a>0 -> ln(pow(a,b)) = b*ln(a)",
    "all f_i>0 -> ln(prod f_i^e_i) = sum e_i*ln(f_i)",
    "a>0 -> pow(a,b)>0; pow(a,0)=1; pow(1,b)=1; pow(a,1)=a; a>0 -> pow(a,k)=a^k for integer literal |k|<=8",
    "a>0 -> pow(a,b+c)=pow(a,b)*pow(a,c); pow(a,k*b)=pow(a,b)^k (k integer literal |k|<=16, in any spelling incl. quotients); pow(a,-b)*pow(a,b)=1",
    "a>0 -> pow(pow(a,b),c)=pow(a,b*c); all f_i>0 -> pow(prod f_i^e_i,b)=prod pow(f_i,b)^e_i",
    "root(n,a)^n=a for odd n or a>=0; sign(root(n,a))=sign(a) (a<0 only for odd n); root(n,0)=0",
    "root(n,a)^g=root(n/g,a) for g|n (a>0 or n odd)",
    "root(n,root(m,a))=root(n*m,a) (a>0 or n*m odd)",
    "root(n,prod f_i^e_i)=prod root(n,f_i)^e_i (n odd, or all f_i>0; f_i!=0 for negative e_i)",
    "-1<=sin,cos<=1; sin(-a)=-sin(a); cos(-a)=cos(a) (canonical spelling; also for products/quotients with an odd number of negative numeric "
    "factors; and between the trig terms present: a = -b -> sin a = -sin b, cos a = cos b); sin(0)=0; cos(0)=1",
    "ground arguments: 35-digit mpmath enclosures; exact values where rational",
]


class Theory:
    """Ground axiom instances for ln/pow/root/sin/cos, created when a term is created."""

    def __init__(self):
        self.axioms = []
        self.seen = {}
        self.depth = 0
        self.lns = []
        self.trigs = {}

    def _mk(self, t, mkax):
        k = t.get_id()
        if k in self.seen:
            return t
        self.seen[k] = t
        if self.depth > 6:
            return t
        self.depth += 1
        try:
            self.axioms.extend(mkax())
        finally:
            self.depth -= 1
        return t

    # ---- ln
    def ln(self, a):
        a = z3.simplify(a)
        t = LN(a)

        def ax():
            out = []
            g = ground(a)
            if g is not None:
                if g > 0:
                    if g == 1:
                        out.append(t == 0)
                    elif g == E_FLOAT:
                        out.append(t == 1)
                    else:
                        out.append(enclosure(t, mpmath.log(mp(g))))
                return out
            out += [z3.Implies(a > 1, t > 0), z3.Implies(z3.And(a > 0, a < 1), t < 0), z3.Implies(a == 1, t == 0),
                    z3.Implies(a == Q(E_FLOAT), t == 1)]
            for (oa, ot) in list(self.lns):
                out.append(z3.Implies(z3.And(a > 0, oa > 0, t == ot), a == oa))
            self.lns.append((a, t))
            if is_uf(a, "pow"):
                out.append(z3.Implies(a.arg(0) > 0, t == a.arg(1) * self.ln(a.arg(0))))
            fs = factors(a)
            if len(fs) > 1 or fs[0][1] != 1:
                guard = z3.And([f > 0 for f, _ in fs])
                out.append(z3.Implies(guard, t == z3.Sum([e * self.ln(f) for f, e in fs])))
            return out

        return self._mk(t, ax)

    # ---- pow (a > 0)
    def pow(self, a, b):
        a = z3.simplify(a)
        b = z3.simplify(b)
        t = POW(a, b)

        def ax():
            out = []
            ga, gb = ground(a), ground(b)
            if ga is not None and gb is not None and ga > 0:
                if gb.denominator == 1 and abs(gb.numerator) <= 64:
                    out.append(t == Q(ga ** gb.numerator))
                elif ga == 1:
                    out.append(t == 1)
                else:
                    out.append(enclosure(t, mpmath.power(mp(ga), mp(gb))))
                return out
            out += [z3.Implies(a > 0, t > 0), z3.Implies(b == 0, t == 1), z3.Implies(a == 1, t == 1),
                    z3.Implies(b == 1, t == a)]
            out.append(z3.Implies(a > 0, self.ln(t) == b * self.ln(a)))
            if gb is not None and gb.denominator == 1 and abs(gb.numerator) <= 8:
                out.append(z3.Implies(a > 0, t == ipow(a, gb.numerator)))
            elif gb is None and _only_params(b):
                for k in range(-2, 7):      # a symbolic constant as exponent that a path condition pins to a small integer
                    out.append(z3.Implies(z3.And(a > 0, b == k), t == ipow(a, k)))
            bk = b.decl().kind() if z3.is_app(b) else None
            if bk == z3.Z3_OP_ADD:
                prod = z3.RealVal(1)
                for c in b.children():
                    prod = prod * (self.pow(a, c))
                out.append(z3.Implies(a > 0, t == prod))
            elif bk in (z3.Z3_OP_MUL, z3.Z3_OP_DIV):
                # exponent = (integer literal) * rest, in any spelling (2*u, u*2, 2/x, (2*u)/v ...): pow(a, k*rest) = pow(a, rest)^k
                fs = factors(b)
                kf = fractions.Fraction(1)
                rest = []
                for f, e in fs:
                    gf = ground(f)
                    if gf is not None and gf != 0:
                        kf *= gf ** e
                    else:
                        rest.append((f, e))
                if rest and kf != 1 and kf.denominator == 1 and abs(kf.numerator) <= 16:
                    restt = z3.RealVal(1)
                    for f, e in rest:
                        restt = restt * ipow(f, e) if e >= 0 else restt / ipow(f, -e)
                    restt = z3.simplify(restt)
                    nz = [f != 0 for f, e in rest if e < 0]
                    out.append(z3.Implies(z3.And([a > 0] + nz), t == ipow(self.pow(a, restt), kf.numerator)))
            elif bk == z3.Z3_OP_UMINUS:
                out.append(z3.Implies(a > 0, t * self.pow(a, b.arg(0)) == 1))
            if is_uf(a, "pow"):
                out.append(z3.Implies(a.arg(0) > 0, t == self.pow(a.arg(0), a.arg(1) * b)))
            fs = factors(a)
            if len(fs) > 1 or fs[0][1] != 1:
                guard = z3.And([f > 0 for f, _ in fs])
                prod = z3.RealVal(1)
                for f, e in fs:
                    if ground(f) is not None and ground(f) == 1:
                        continue
                    prod = prod * ipow(self.pow(f, b), e)
                out.append(z3.Implies(guard, t == prod))
            return out

        return self._mk(t, ax)

    # ---- root (n concrete >= 1)
    def root(self, n, a):
        if n == 1:
            return a
        a = z3.simplify(a)
        t = ROOT(z3.IntVal(n), a)

        def ax():
            out = []
            odd = n % 2 == 1
            g = ground(a)
            if g is not None and (odd or g >= 0):
                if g in (0, 1, -1):
                    out.append(t == int(g))
                else:
                    v = mp(g)
                    r = mpmath.root(v, n) if v >= 0 else -mpmath.root(-v, n)
                    out.append(enclosure(t, r))
            okdom = z3.BoolVal(True) if odd else a >= 0
            out += [z3.Implies(okdom, ipow(t, n) == a), z3.Implies(a > 0, t > 0), z3.Implies(a == 0, t == 0)]
            if odd:
                out.append(z3.Implies(a < 0, t < 0))
            for gdiv in range(2, n):
                if n % gdiv == 0:
                    out.append(z3.Implies(a > 0 if not odd else z3.BoolVal(True),
                                          ipow(t, gdiv) == self.root(n // gdiv, a)))
            if is_uf(a, "root"):
                m = a.arg(0).as_long()
                u = a.arg(1)
                out.append(z3.Implies(u > 0 if (m * n) % 2 == 0 else z3.BoolVal(True), t == self.root(m * n, u)))
            fs = factors(a)
            if len(fs) > 1 or fs[0][1] != 1:
                guard = z3.BoolVal(True) if odd else z3.And([f > 0 for f, _ in fs])
                prod = z3.RealVal(1)
                for f, e in fs:
                    gf = ground(f)
                    if gf is not None and gf == -1 and odd:
                        prod = prod * ipow(z3.RealVal(-1), e)
                        continue
                    prod = prod * ipow(self.root(n, f), e)
                nz = z3.And([f != 0 for f, e in fs if e < 0]) if any(e < 0 for _, e in fs) else z3.BoolVal(True)
                out.append(z3.Implies(z3.And(guard, nz), t == prod))
            return out

        return self._mk(t, ax)

    def _trig(self, F, mpf_, a, zero_val, parity):
        a = z3.simplify(a)
        # canonical spelling: sin(-u) is written -sin(u), cos(-u) is written cos(u) (true identities, applied when the argument is
        # syntactically "negative-leading"), so that nested occurrences such as sin(sin(-x)) need no further instances
        if ground(a) is None:
            na = z3.simplify(-a)
            if len(str(na)) < len(str(a)):
                inner = self._trig(F, mpf_, na, zero_val, parity)
                return -inner if parity == -1 else inner
        t = F(a)

        def ax():
            out = [t >= -1, t <= 1]
            g = ground(a)
            if g is not None:
                out.append(t == zero_val if g == 0 else enclosure(t, mpf_(mp(g))))
                return out
            # symmetry between the trig terms present: arguments that are equal / opposite IN VALUE (not only in spelling)
            reg = self.trigs.setdefault(F.name(), [])
            for (oa, ot) in reg:
                out.append(z3.Implies(a == -oa, t == (parity * ot)))
            reg.append((a, t))
            na = z3.simplify(-a)
            if len(str(na)) < len(str(a)):
                other = self.sin(na) if F is SIN else self.cos(na)
                out.append(t == (parity * other))
            else:
                # a product / quotient with an odd number of negative numeric factors, e.g. 1/(-1*x): relate to the positive-spelled argument
                fs = factors(a)
                if len(fs) > 1:
                    flips, parts = 0, []
                    for f, e in fs:
                        g2 = ground(f)
                        if g2 is not None and g2 < 0:
                            if e % 2:
                                flips += 1
                            f = Q(-g2)
                        parts.append((f, e))
                    if flips % 2 == 1:
                        b = z3.RealVal(1)
                        for f, e in parts:
                            if ground(f) is not None and ground(f) == 1:
                                continue
                            b = b * ipow(f, e) if e >= 0 else b / ipow(f, -e)
                        b = z3.simplify(b)
                        if not b.eq(a):
                            nz = [f != 0 for f, e in parts if e < 0]
                            other = self.sin(b) if F is SIN else self.cos(b)
                            out.append(z3.Implies(z3.And(nz) if nz else z3.BoolVal(True), t == (parity * other)))
            return out

        return self._mk(t, ax)

    def sin(self, a):
        return self._trig(SIN, mpmath.sin, a, 0, -1)

    def cos(self, a):
        return self._trig(COS, mpmath.cos, a, 1, 1)


TH = Theory()
ENG = None


class Engine:
    """Re-execution DFS over decision prefixes; one z3 query per fork side and per verification condition."""

    def __init__(self, timeout_ms=10000):
        self.timeout = timeout_ms
        self.worklist = [[]]
        self.nq = 0
        self.tq = 0.0
        self.n_unknown_forks = 0
        self.deadline = None
        self.n_budget_skipped = 0
        self.pc = []
        self.trace = []
        self.prefix = []
        self.last = None
        self.decided = {}
        self.notes = []          # per-path free-form notes (rule firings etc.)
        self.decisions = {}      # non-boolean decision points (e.g. set iteration order)

    def solver(self, *extra, timeout=None):
        s = z3.Solver()
        s.set("timeout", timeout or self.timeout)
        for c in self.pc:
            s.add(c)
        for e in extra:
            s.add(e)
        n0 = -1
        while n0 != len(TH.axioms):
            n0 = len(TH.axioms)
        for a in TH.axioms:
            s.add(a)
        return s

    def check(self, *extra, timeout=None):
        t = time.time()
        if self.deadline is not None and t > self.deadline:
            self.n_budget_skipped += 1        # job time budget exhausted: inconclusive, never a verdict
            raise BudgetExhausted()
        s = self.solver(*extra, timeout=timeout)
        r = s.check()       # (z3's timeout is not always honoured inside nonlinear arithmetic: the job scheduler kills stuck workers)
        self.nq += 1
        self.tq += time.time() - t
        self.last = s
        return str(r)

    def start_path(self, prefix):
        self.prefix = list(prefix)
        self.trace = []
        self.pc = []
        self.notes = []
        self.decided = {}

    def add(self, c):
        self.pc.append(c)

    def branch(self, cond):
        cond = z3.simplify(cond)
        if z3.is_true(cond):
            return True
        if z3.is_false(cond):
            return False
        cid = cond.get_id()
        if cid in self.decided:          # the same condition was already decided on this path
            return self.decided[cid][0]
        d = self._branch(cond)
        # the AST is stored with the decision: it keeps the term alive so that its id cannot be reused
        self.decided[cid] = (d, cond)
        neg = cond.arg(0) if z3.is_not(cond) else z3.Not(cond)
        self.decided[neg.get_id()] = (not d, neg)
        return d

    def _branch(self, cond):
        i = len(self.trace)
        if i < len(self.prefix):
            d = self.prefix[i]
        else:
            rt = self.check(cond)
            if rt == "unsat":
                d = False
            else:
                rf = self.check(z3.Not(cond))
                if rf == "unsat":
                    d = True
                else:
                    if rt == "unknown" or rf == "unknown":
                        self.n_unknown_forks += 1
                    d = True
                    self.worklist.append(self.trace + [False])
        self.trace.append(d)
        self.add(cond if d else z3.Not(cond))
        return d

    def choose(self, k, label="choice"):
        """nondeterministic choice of an index in range(k) (used for set iteration orders)."""
        i = 0
        while i < k - 1:
            b = z3.Bool(f"{label}!{len(self.trace)}")
            if self.branch(b):
                break
            i += 1
        return i


def R(v):
    """z3 real term of a number-like value"""
    if isinstance(v, SymReal):
        return v.t
    if isinstance(v, SymInt):
        return z3.ToReal(v.t)
    if isinstance(v, bool):
        return z3.RealVal(int(v))
    if isinstance(v, builtins.int):
        return z3.RealVal(v)
    if isinstance(v, builtins.float):
        if v != v or v in (float("inf"), float("-inf")):
            raise Unsupported("non-finite float")
        return Q(v)
    if isinstance(v, fractions.Fraction):
        return Q(v)
    raise Unsupported(f"R({type(v).__name__})")


class SymBool:
    def __init__(self, t):
        self.t = t

    def __bool__(self):
        return ENG.branch(self.t)

    def __repr__(self):
        return f"<symbool {z3.simplify(self.t)}>"


def _num(v):
    return isinstance(v, (builtins.int, builtins.float, SymReal, SymInt)) and not isinstance(v, SymComplex)


_TOKENS = {}


def token_of(t, kind="R"):
    """opaque printable token for a symbolic number (used by repr/format); registered for C13"""
    key = (kind, t.get_id())
    if key not in _TOKENS:
        _TOKENS[key] = (f"SYM{kind}{len(_TOKENS)}", t)
    return _TOKENS[key][0]


def render_number(t, is_int=False, int_spelled=False):
    g = ground(t)
    if g is not None:
        if g.denominator == 1 and is_int:
            return str(int(g))
        f = float(g)
        if fractions.Fraction(f) == g:
            if is_int:
                return repr(int(f))
            return repr(f) if not (g.denominator == 1 and int_spelled) else str(int(g))
        return f"SYMQ({g.numerator},{g.denominator})"
    return token_of(t, "I" if is_int else "R")




class SymReal:
    __slots__ = ("t", "int_spelled")     # int_spelled: a lifted Python int (prints as 2, not 2.0); kept on the proxy, never keyed by AST id

    def __init__(self, t, int_spelled=False):
        self.t = t
        self.int_spelled = int_spelled

    def __add__(s, o): return SymReal(s.t + R(o)) if _num(o) else NotImplemented
    def __radd__(s, o): return SymReal(R(o) + s.t) if _num(o) else NotImplemented
    def __sub__(s, o): return SymReal(s.t - R(o)) if _num(o) else NotImplemented
    def __rsub__(s, o): return SymReal(R(o) - s.t) if _num(o) else NotImplemented
    def __mul__(s, o): return SymReal(s.t * R(o)) if _num(o) else NotImplemented
    def __rmul__(s, o): return SymReal(R(o) * s.t) if _num(o) else NotImplemented
    def __neg__(s): return SymReal(-s.t)
    def __pos__(s): return s
    def __abs__(s): return SymReal(z3.If(s.t >= 0, s.t, -s.t))
    def __truediv__(s, o): return _div(s, o) if _num(o) else NotImplemented
    def __rtruediv__(s, o): return _div(o, s) if _num(o) else NotImplemented
    def __floordiv__(s, o): raise Unsupported("floordiv on reals")
    def __rfloordiv__(s, o): raise Unsupported("floordiv on reals")
    def __mod__(s, o): return _rmod(s, o)
    def __rmod__(s, o): raise Unsupported("mod on reals")
    def __pow__(s, o, mod=None): return _pow(s, o) if _num(o) else NotImplemented
    def __rpow__(s, o, mod=None): return _pow(o, s) if _num(o) else NotImplemented
    def __eq__(s, o): return SymBool(s.t == R(o)) if _num(o) else (False if isinstance(o, (SymComplex, str, type(None))) else NotImplemented)
    def __ne__(s, o): return SymBool(s.t != R(o)) if _num(o) else (True if isinstance(o, (SymComplex, str, type(None))) else NotImplemented)
    def __lt__(s, o): return SymBool(s.t < R(o)) if _num(o) else NotImplemented
    def __le__(s, o): return SymBool(s.t <= R(o)) if _num(o) else NotImplemented
    def __gt__(s, o): return SymBool(s.t > R(o)) if _num(o) else NotImplemented
    def __ge__(s, o): return SymBool(s.t >= R(o)) if _num(o) else NotImplemented
    def __bool__(s): return ENG.branch(s.t != 0)

    def __hash__(s):
        if HASH_HOOK[0] is not None:
            return HASH_HOOK[0](s)
        g = ground(s.t)
        if g is not None:
            return hash(g)
        # a symbolic number used as a dict/set key or inside hash(): every symbolic number gets the same hash, so lookups among
        # symbolic keys fall through to == (a solver-checked fork) and a hash-keyed table is explored on its COLLIDING path (replays use
        # CPython's real collisions).  Lookups of a symbolic key against ground keys are not modelled (counted in SYMBOLIC_HASHES).
        SYMBOLIC_HASHES[0] += 1
        return 0

    def __float__(s):
        raise Unsupported("float(SymReal) at C level")

    def __int__(s):
        raise Unsupported("int(SymReal)")

    def __index__(s):
        raise Unsupported("index(SymReal)")

    def __trunc__(s):
        raise Unsupported("trunc(SymReal)")

    def __complex__(s):
        raise Unsupported("complex(SymReal)")

    def is_integer(s):
        return SymBool(z3.IsInt(s.t))

    def conjugate(s):
        return s

    @property
    def real(s):
        return s

    @property
    def imag(s):
        return 0.0

    def __round__(s, nd=None):
        if nd is not None:
            if not isinstance(nd, builtins.int) or abs(nd) > 30:
                raise Unsupported("round ndigits")
            scale = z3.RealVal(10 ** nd) if nd >= 0 else z3.Q(1, 10 ** (-nd))
            inner = SymReal(s.t * scale).__round__()          # round-half-even of x*10^nd (decimal, not binary: the real-number reading)
            it = z3.ToReal(inner.t) if isinstance(inner, SymInt) else z3.RealVal(inner)
            return SymReal(it / scale)
        g = ground(s.t)
        if g is not None:
            return round(g)
        fl = z3.ToInt(s.t)
        fr = s.t - z3.ToReal(fl)
        return SymInt(z3.If(fr < z3.Q(1, 2), fl, z3.If(fr > z3.Q(1, 2), fl + 1, z3.If(fl % 2 == 0, fl, fl + 1))))

    def __floor__(s):
        g = ground(s.t)
        if g is not None:
            return _math.floor(g)
        return SymInt(z3.ToInt(s.t))

    def __ceil__(s):
        g = ground(s.t)
        if g is not None:
            return _math.ceil(g)
        return SymInt(-z3.ToInt(-s.t))

    def __repr__(s):
        return render_number(s.t, False, s.int_spelled)

    __str__ = __repr__

    def __format__(s, spec):
        if spec:
            # a format specification may lose digits: the rendering is an opaque LOSSY token that does not evaluate back to the value
            return f"LOSSY({render_number(s.t, False, s.int_spelled)!r}, {spec!r})"
        return render_number(s.t, False, s.int_spelled)


def _rmod(a, b):
    # real % concrete positive integer on an integral value is the only modelled case
    raise Unsupported("mod on reals")


class SymInt:
    __slots__ = ("t",)

    def __init__(self, t):
        self.t = t

    def _i(s, o):
        if isinstance(o, SymInt):
            return o.t
        if isinstance(o, bool):
            return z3.IntVal(int(o))
        if isinstance(o, builtins.int):
            return z3.IntVal(o)
        return None

    def __repr__(s):
        return render_number(s.t, True)

    __str__ = __repr__

    def __format__(s, spec):
        return render_number(s.t, True)

    def __hash__(s):
        if HASH_HOOK[0] is not None:
            return HASH_HOOK[0](s)
        g = ground(s.t)
        if g is not None:
            return hash(int(g))
        SYMBOLIC_HASHES[0] += 1
        return 0

    def __eq__(s, o): return SymBool(z3.ToReal(s.t) == R(o)) if _num(o) else False
    def __ne__(s, o): return SymBool(z3.ToReal(s.t) != R(o)) if _num(o) else True
    def __lt__(s, o): return SymBool(z3.ToReal(s.t) < R(o)) if _num(o) else NotImplemented
    def __le__(s, o): return SymBool(z3.ToReal(s.t) <= R(o)) if _num(o) else NotImplemented
    def __gt__(s, o): return SymBool(z3.ToReal(s.t) > R(o)) if _num(o) else NotImplemented
    def __ge__(s, o): return SymBool(z3.ToReal(s.t) >= R(o)) if _num(o) else NotImplemented
    def __round__(s, nd=None): return s
    def __bool__(s): return ENG.branch(s.t != 0)
    def __neg__(s): return SymInt(-s.t)
    def __pos__(s): return s
    def __abs__(s): return SymInt(z3.If(s.t >= 0, s.t, -s.t))
    def is_integer(s): return True

    def __add__(s, o):
        i = s._i(o)
        if i is not None: return SymInt(s.t + i)
        return SymReal(z3.ToReal(s.t) + R(o)) if _num(o) else NotImplemented
    __radd__ = __add__

    def __sub__(s, o):
        i = s._i(o)
        if i is not None: return SymInt(s.t - i)
        return SymReal(z3.ToReal(s.t) - R(o)) if _num(o) else NotImplemented

    def __rsub__(s, o):
        i = s._i(o)
        if i is not None: return SymInt(i - s.t)
        return SymReal(R(o) - z3.ToReal(s.t)) if _num(o) else NotImplemented

    def __mul__(s, o):
        i = s._i(o)
        if i is not None: return SymInt(s.t * i)
        return SymReal(z3.ToReal(s.t) * R(o)) if _num(o) else NotImplemented
    __rmul__ = __mul__

    def __truediv__(s, o): return _div(s, o) if _num(o) else NotImplemented
    def __rtruediv__(s, o): return _div(o, s) if _num(o) else NotImplemented

    def __mod__(s, o):
        if isinstance(o, builtins.int) and not isinstance(o, bool) and o > 0:
            return SymInt(s.t % o)          # z3 mod is non-negative for positive modulus, as Python's
        raise Unsupported("SymInt % non-positive or symbolic modulus")

    def __floordiv__(s, o):
        if isinstance(o, builtins.int) and not isinstance(o, bool) and o > 0:
            return SymInt(s.t / o)          # z3 integer division is floor for a positive divisor
        raise Unsupported("SymInt // non-positive or symbolic divisor")

    def __pow__(s, o, mod=None): return _pow(s, o) if _num(o) else NotImplemented
    def __rpow__(s, o, mod=None): return _pow(o, s) if _num(o) else NotImplemented

    def __index__(s):
        g = ground(s.t)
        if g is not None:
            return int(g)
        lo, hi = INDEX_RANGE
        for k in range(lo, hi + 1):          # bounded case split: the index becomes concrete on each path
            if (s == k).__bool__():
                return k
        raise Unsupported("index(SymInt) outside the case-split range")

    def __int__(s):
        return s.__index__()

    def __float__(s):
        raise Unsupported("float(SymInt) at C level")


class SymComplex:
    """what Python returns for (negative float) ** (non-integral float); poisons everything it touches"""

    def _p(s, *a): return s
    __add__ = __radd__ = __sub__ = __rsub__ = __mul__ = __rmul__ = __truediv__ = __rtruediv__ = _p
    __pow__ = __rpow__ = _p
    def __neg__(s): return s
    def __pos__(s): return s
    def __eq__(s, o): return False
    def __ne__(s, o): return True
    def __hash__(s): return 0
    def _cmp(s, o): raise TypeError("'<' not supported between instances of 'complex' and 'float'")
    __lt__ = __le__ = __gt__ = __ge__ = _cmp
    def __bool__(s): return True
    def __float__(s): raise TypeError("float() argument must be a string or a real number, not 'complex'")
    def __repr__(s): return "<complex>"


HASH_HOOK = [None]
SYMBOLIC_HASHES = [0]
import numbers as _numbers  # noqa: E402
_numbers.Real.register(SymReal)
_numbers.Integral.register(SymInt)


def _div(a, b):
    bt = R(b)
    if (SymReal(bt) == 0).__bool__():
        raise ZeroDivisionError("float division by zero")
    return SymReal(R(a) / bt)


def _concrete_int(v):
    if isinstance(v, bool):
        return int(v)
    if isinstance(v, builtins.int):
        return v
    if isinstance(v, builtins.float) and v.is_integer():
        return int(v)
    if isinstance(v, (SymReal, SymInt)):
        g = ground(v.t)
        if g is not None and g.denominator == 1:
            return int(g)
    return None


SYMINT_POW_RANGE = (-1, 6)
INDEX_RANGE = (-8, 8)


def _pow(a, b):
    if isinstance(a, SymComplex) or isinstance(b, SymComplex):
        return SymComplex()
    at, bt = R(a), R(b)
    n = _concrete_int(b)
    if n is not None and abs(n) <= 64:
        if n >= 0:
            return SymReal(ipow(at, n))
        if (SymReal(at) == 0).__bool__():
            raise ZeroDivisionError("0.0 cannot be raised to a negative power")
        return SymReal(ipow(at, n))
    if isinstance(b, SymInt):
        lo, hi = SYMINT_POW_RANGE
        for k in range(lo, hi + 1):
            if (b == k).__bool__():
                return _pow(a, k)
        raise Unsupported("symbolic integer exponent outside the case-split range")
    sa = SymReal(at)
    sb = SymReal(bt)
    if (sa < 0).__bool__():
        if sb.is_integer().__bool__():
            raise Unsupported("negative base with symbolic integral exponent")
        return SymComplex()
    if (sa == 0).__bool__():
        if (sb > 0).__bool__():
            return SymReal(z3.RealVal(0))
        if (sb == 0).__bool__():
            return SymReal(z3.RealVal(1))
        raise ZeroDivisionError("0.0 cannot be raised to a negative power")
    if isinstance(b, builtins.float):
        for k in range(2, 65):
            if b == 1 / k:
                return SymReal(TH.root(k, at))
    return SymReal(TH.pow(at, bt))


class SymMath:
    """stand-in for the math module inside the smoothmath namespaces"""
    e = _math.e
    pi = _math.pi
    inf = _math.inf
    nan = _math.nan
    tau = _math.tau

    @staticmethod
    def _sym(*xs):
        return any(isinstance(x, (SymReal, SymInt, SymComplex)) for x in xs)

    @staticmethod
    def gcd(*a):
        return _math.gcd(*[x.__index__() if isinstance(x, SymInt) else x for x in a])

    @staticmethod
    def sqrt(x):
        if isinstance(x, SymComplex):
            raise TypeError("must be real number, not complex")
        s = SymReal(R(x))
        if (s < 0).__bool__():
            raise ValueError("math domain error")
        return SymReal(TH.root(2, s.t))

    @staticmethod
    def cbrt(x):
        if isinstance(x, SymComplex):
            raise TypeError("must be real number, not complex")
        return SymReal(TH.root(3, R(x)))

    @staticmethod
    def log(x, base=None):
        if isinstance(x, SymComplex) or isinstance(base, SymComplex):
            raise TypeError("must be real number, not complex")
        s = SymReal(R(x))
        if (s <= 0).__bool__():
            raise ValueError("math domain error")
        num = TH.ln(s.t)
        if base is None:
            return SymReal(num)
        b = SymReal(R(base))
        if (b <= 0).__bool__():
            raise ValueError("math domain error")
        den = TH.ln(b.t)
        if (SymReal(den) == 0).__bool__():
            raise ZeroDivisionError("float division by zero")
        return SymReal(num / den)

    @staticmethod
    def log2(x): return SymMath.log(x, 2.0)
    @staticmethod
    def log10(x): return SymMath.log(x, 10.0)

    @staticmethod
    def exp(x):
        return SymReal(TH.pow(Q(_math.e), R(x)))

    @staticmethod
    def pow(x, y):
        r = _pow(x, y)
        if isinstance(r, SymComplex):
            raise ValueError("math domain error")
        return r

    @staticmethod
    def sin(x):
        if isinstance(x, SymComplex):
            raise TypeError("must be real number, not complex")
        return SymReal(TH.sin(R(x)))

    @staticmethod
    def cos(x):
        if isinstance(x, SymComplex):
            raise TypeError("must be real number, not complex")
        return SymReal(TH.cos(R(x)))

    @staticmethod
    def fabs(x): return abs(x) if SymMath._sym(x) else _math.fabs(x)
    @staticmethod
    def isnan(x): return False if SymMath._sym(x) else _math.isnan(x)
    @staticmethod
    def isinf(x): return False if SymMath._sym(x) else _math.isinf(x)
    @staticmethod
    def isfinite(x): return True if SymMath._sym(x) else _math.isfinite(x)
    @staticmethod
    def floor(x): return x.__floor__() if SymMath._sym(x) else _math.floor(x)
    @staticmethod
    def ceil(x): return x.__ceil__() if SymMath._sym(x) else _math.ceil(x)

    @staticmethod
    def isclose(a, b, *, rel_tol=1e-09, abs_tol=0.0):
        if not SymMath._sym(a, b):
            return _math.isclose(a, b, rel_tol=rel_tol, abs_tol=abs_tol)
        d = abs(a - b)
        return bool(d <= rel_tol * abs(a)) or bool(d <= rel_tol * abs(b)) or bool(d <= abs_tol)

    def __getattr__(self, name):
        f = getattr(_math, name)

        def wrapper(*a, **k):
            if SymMath._sym(*a):
                raise Unsupported(f"math.{name} on a symbolic value")
            return f(*a, **k)
        return wrapper if callable(f) else f


class _FloatMeta(type):
    def __instancecheck__(cls, obj):
        return builtins.isinstance(obj, (builtins.float, SymReal))

    def __call__(cls, x=0.0):
        if isinstance(x, SymReal):
            return x
        if isinstance(x, SymInt):
            return SymReal(R(x))
        if isinstance(x, SymComplex):
            raise TypeError("float() argument must be a string or a real number, not 'complex'")
        return builtins.float(x)


class sym_float(metaclass=_FloatMeta):
    pass


class _IntMeta(type):
    def __instancecheck__(cls, obj):
        return builtins.isinstance(obj, (builtins.int, SymInt))

    def __call__(cls, x=0, *a):
        if isinstance(x, SymInt):
            return x
        if isinstance(x, SymReal):
            g = ground(x.t)
            if g is not None:
                return builtins.int(g)
            raise Unsupported("int(SymReal)")
        return builtins.int(x, *a)


class sym_int(metaclass=_IntMeta):
    pass


def sym_abs(x):
    return builtins.abs(x)


def lift(v):
    """concrete number -> ground proxy (exact rational); everything else unchanged"""
    if isinstance(v, bool) or not isinstance(v, (builtins.int, builtins.float)):
        return v
    if isinstance(v, builtins.float) and (v != v or v in (float("inf"), float("-inf"))):
        return v
    return SymReal(R(v), int_spelled=isinstance(v, builtins.int))


_INJECTED = {"done": False, "lift": True}


def inject(lift_constants=True):
    """Shadow float/int/math in every smoothmath module namespace; wrap Constant.__init__ to lift numbers."""
    import smoothmath  # noqa: F401  (the current working tree: /repo/src is first on sys.path)
    import smoothmath.expression as E
    sm = SymMath()
    for name, mod in list(sys.modules.items()):
        if name == "smoothmath" or name.startswith("smoothmath."):
            mod.__dict__["float"] = sym_float
            mod.__dict__["int"] = sym_int
            if "math" in mod.__dict__:
                mod.__dict__["math"] = sm
    _INJECTED["lift"] = lift_constants
    if not _INJECTED["done"]:
        orig = E.Constant.__init__

        def lifted_init(self, value, *a, **k):
            orig(self, lift(value) if _INJECTED["lift"] else value, *a, **k)

        lifted_init.__wrapped__ = orig
        E.Constant.__init__ = lifted_init
        _INJECTED["done"] = True


def set_lifting(on):
    _INJECTED["lift"] = bool(on)


class PathResult:
    __slots__ = ("status", "value", "decisions", "pc", "notes")

    def __init__(self, status, value, decisions, pc, notes):
        self.status, self.value, self.decisions, self.pc, self.notes = status, value, decisions, pc, notes


def explore(fn, max_paths=2000, timeout_ms=10000, budget_s=None):
    """Run fn(eng) once per feasible path.  Returns (engine, [PathResult]); engine.truncated tells whether
    the path budget cut the exploration."""
    global ENG, TH
    TH = Theory()
    _TOKENS.clear()
    eng = Engine(timeout_ms)
    if budget_s:
        eng.deadline = time.time() + budget_s
    ENG = eng
    results = []
    while eng.worklist and len(results) < max_paths:
        prefix = eng.worklist.pop()
        eng.start_path(prefix)
        try:
            v = fn(eng)
            results.append(PathResult("ok", v, list(eng.trace), list(eng.pc), list(eng.notes)))
        except PathAbort as e:
            results.append(PathResult("abort", str(e), list(eng.trace), list(eng.pc), list(eng.notes)))
        except Unsupported as e:
            results.append(PathResult("unsupported", str(e), list(eng.trace), list(eng.pc), list(eng.notes)))
        except BudgetExhausted:
            results.append(PathResult("abort", "job time budget exhausted", list(eng.trace), list(eng.pc), list(eng.notes)))
            eng.worklist.append(prefix)
            break
    eng.truncated = bool(eng.worklist)
    return eng, results


def theory():
    return TH


def engine():
    return ENG
