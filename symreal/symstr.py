"""Symbolic strings (for variable / coordinate names) and a stand-in for the `re` module.

SymStr subclasses str (so that it can be a keyword-argument name and passes isinstance(_, str)); its C-level content is a
placeholder token, every Python-level question about it (truthiness, length, regex match, isidentifier, ...) is a
solver-checked fork on its z3 string term.  Regex patterns are translated from Python's own parse tree (re._parser).
"""
import re as _re
import z3

from symreal import core as sx

try:
    import re._parser as _parser
    import re._constants as _c
except ImportError:  # python < 3.11
    import sre_parse as _parser
    import sre_constants as _c

OPAQUE_WORD = "é"          # one opaque non-ASCII word character stands for "all other word characters"


def word_class():
    return z3.Union(z3.Range("a", "z"), z3.Range("A", "Z"), z3.Range("0", "9"), z3.Re("_"), z3.Re(OPAQUE_WORD))


def digit_class():
    return z3.Range("0", "9")


def any_char():
    return z3.AllChar(z3.ReSort(z3.StringSort()))


def full():
    return z3.Star(any_char())


def space_class():
    return z3.Union(*[z3.Re(ch) for ch in " \t\n\r\x0b\x0c"])


def _set_to_re(items, flags):
    negate = False
    parts = []
    for op, av in items:
        if op is _c.NEGATE:
            negate = True
        elif op is _c.LITERAL:
            parts.append(z3.Re(chr(av)))
        elif op is _c.RANGE:
            parts.append(z3.Range(chr(av[0]), chr(av[1])))
        elif op is _c.CATEGORY:
            parts.append(_category(av))
        else:
            raise sx.Unsupported(f"regex set item {op}")
    r = parts[0] if len(parts) == 1 else z3.Union(*parts)
    if negate:
        r = z3.Intersect(any_char(), z3.Complement(r))
    return r


def _category(av):
    if av is _c.CATEGORY_WORD:
        return word_class()
    if av is _c.CATEGORY_NOT_WORD:
        return z3.Intersect(any_char(), z3.Complement(word_class()))
    if av is _c.CATEGORY_DIGIT:
        return digit_class()
    if av is _c.CATEGORY_NOT_DIGIT:
        return z3.Intersect(any_char(), z3.Complement(digit_class()))
    if av is _c.CATEGORY_SPACE:
        return space_class()
    if av is _c.CATEGORY_NOT_SPACE:
        return z3.Intersect(any_char(), z3.Complement(space_class()))
    raise sx.Unsupported(f"regex category {av}")


def _seq_to_re(seq, flags, top=False):
    """returns (regex, anchored_start, anchored_end)"""
    items = list(seq)
    a_start = a_end = False
    parts = []
    n = len(items)
    for pos, (op, av) in enumerate(items):
        if op is _c.AT:
            if av in (_c.AT_BEGINNING_STRING, _c.AT_BEGINNING) and pos == 0 and top and not (flags & _re.MULTILINE):
                a_start = True
            elif av is _c.AT_END_STRING and pos == n - 1 and top:
                a_end = True
            elif av is _c.AT_END and pos == n - 1 and top and not (flags & _re.MULTILINE):
                parts.append(z3.Option(z3.Re("\n")))       # `$` also matches just before a trailing newline
                a_end = True
            else:
                raise sx.Unsupported(f"regex anchor {av} at position {pos}")
        elif op is _c.LITERAL:
            parts.append(z3.Re(chr(av)))
        elif op is _c.NOT_LITERAL:
            parts.append(z3.Intersect(any_char(), z3.Complement(z3.Re(chr(av)))))
        elif op is _c.ANY:
            parts.append(any_char() if flags & _re.DOTALL else z3.Intersect(any_char(), z3.Complement(z3.Re("\n"))))
        elif op is _c.IN:
            parts.append(_set_to_re(av, flags))
        elif op in (_c.MAX_REPEAT, _c.MIN_REPEAT):
            lo, hi, sub = av
            r, s, e = _seq_to_re(sub, flags)
            if hi is _c.MAXREPEAT:
                rep = z3.Star(r) if lo == 0 else (z3.Plus(r) if lo == 1 else z3.Concat(*([r] * lo + [z3.Star(r)])))
            else:
                rep = z3.Loop(r, lo, hi)
            parts.append(rep)
        elif op is _c.SUBPATTERN:
            r, s, e = _seq_to_re(av[3], flags)
            parts.append(r)
        elif op is _c.BRANCH:
            alts = [_seq_to_re(b, flags)[0] for b in av[1]]
            parts.append(z3.Union(*alts) if len(alts) > 1 else alts[0])
        elif op is _c.CATEGORY:
            parts.append(_category(av))
        else:
            raise sx.Unsupported(f"regex op {op}")
    if not parts:
        r = z3.Re("")
    elif len(parts) == 1:
        r = parts[0]
    else:
        r = z3.Concat(*parts)
    return r, a_start, a_end


class SymPattern:
    def __init__(self, pattern, flags=0):
        if isinstance(pattern, SymPattern):
            pattern, flags = pattern.pattern, pattern.flags
        self.pattern = pattern
        self.flags = flags
        self._real = _re.compile(pattern, flags)
        self.flags = self._real.flags
        if self.flags & (_re.IGNORECASE | _re.VERBOSE | _re.ASCII | _re.LOCALE):
            self._tr = None
        else:
            try:
                self._tr = _seq_to_re(_parser.parse(pattern, flags & ~_re.UNICODE), self.flags, top=True)
            except sx.Unsupported:
                self._tr = None

    def _lang(self, mode):
        if self._tr is None:
            raise sx.Unsupported(f"regex not translatable: {self.pattern!r}")
        r, a_start, a_end = self._tr
        if mode == "search" and not a_start:
            r = z3.Concat(full(), r)
        if mode in ("match", "search") and not a_end:
            r = z3.Concat(r, full())
        return r

    def _do(self, mode, s):
        if not isinstance(s, SymStr):
            return getattr(self._real, mode)(s)
        ok = sx.SymBool(z3.InRe(s.t, self._lang(mode)))
        return _Match() if ok.__bool__() else None

    def match(self, s, *a):
        return self._do("match", s)

    def fullmatch(self, s, *a):
        return self._do("fullmatch", s)

    def search(self, s, *a):
        return self._do("search", s)

    def __getattr__(self, name):
        return getattr(self._real, name)


class _Match:
    def __bool__(self):
        return True

    def __getattr__(self, name):
        raise sx.Unsupported(f"match object attribute {name}")


class SymRe:
    """stand-in for the re module inside the smoothmath namespaces"""

    def __getattr__(self, name):
        return getattr(_re, name)

    @staticmethod
    def compile(pattern, flags=0):
        return SymPattern(pattern, flags)

    @staticmethod
    def match(pattern, s, flags=0):
        return SymPattern(pattern, flags).match(s)

    @staticmethod
    def fullmatch(pattern, s, flags=0):
        return SymPattern(pattern, flags).fullmatch(s)

    @staticmethod
    def search(pattern, s, flags=0):
        return SymPattern(pattern, flags).search(s)


IDENT_START = None


def identifier_re():
    start = z3.Union(z3.Range("a", "z"), z3.Range("A", "Z"), z3.Re("_"), z3.Re(OPAQUE_WORD))
    return z3.Concat(start, z3.Star(word_class()))


_COUNT = [0]


class SymStr(str):
    def __new__(cls, term, tag=None):
        _COUNT[0] += 1
        o = super().__new__(cls, tag or f"SYMSTR{_COUNT[0]}")
        o.t = term
        return o

    def _in(self, r):
        return sx.SymBool(z3.InRe(self.t, r)).__bool__()

    def __bool__(self):
        return sx.SymBool(z3.Length(self.t) > 0).__bool__()

    def __len__(self):
        for k in range(0, 10):
            if sx.SymBool(z3.Length(self.t) == k).__bool__():
                return k
        raise sx.Unsupported("len(SymStr) > 9")

    def __eq__(self, o):
        if o is self:
            return True
        if isinstance(o, SymStr):
            return sx.SymBool(self.t == o.t).__bool__()
        if isinstance(o, str):
            return sx.SymBool(self.t == z3.StringVal(o)).__bool__()
        return False

    def __ne__(self, o):
        return not self.__eq__(o)

    def __hash__(self):
        return 7          # all symbolic strings collide: dict/set lookups fall through to __eq__ (a solver-checked fork)

    def isidentifier(self):
        return self._in(identifier_re())

    def isalnum(self):
        return self._in(z3.Plus(z3.Union(z3.Range("a", "z"), z3.Range("A", "Z"), z3.Range("0", "9"), z3.Re(OPAQUE_WORD))))

    def isalpha(self):
        return self._in(z3.Plus(z3.Union(z3.Range("a", "z"), z3.Range("A", "Z"), z3.Re(OPAQUE_WORD))))

    def isdigit(self):
        return self._in(z3.Plus(z3.Range("0", "9")))

    isdecimal = isnumeric = isdigit

    def isascii(self):
        return self._in(z3.Star(z3.Range("\x00", "\x7f")))

    def isspace(self):
        return self._in(z3.Plus(space_class()))

    def isprintable(self):
        raise sx.Unsupported("SymStr.isprintable")

    def __format__(self, spec):
        return str.__str__(self)

    def __contains__(self, o):
        if isinstance(o, str) and not isinstance(o, SymStr):
            return sx.SymBool(z3.Contains(self.t, z3.StringVal(o))).__bool__()
        raise sx.Unsupported("SymStr.__contains__")

    def startswith(self, p, *a):
        if isinstance(p, str) and not isinstance(p, SymStr) and not a:
            return sx.SymBool(z3.PrefixOf(z3.StringVal(p), self.t)).__bool__()
        raise sx.Unsupported("SymStr.startswith")

    def endswith(self, p, *a):
        if isinstance(p, str) and not isinstance(p, SymStr) and not a:
            return sx.SymBool(z3.SuffixOf(z3.StringVal(p), self.t)).__bool__()
        raise sx.Unsupported("SymStr.endswith")

    def _unsupported(self, *a, **k):
        raise sx.Unsupported("unmodelled str operation on a symbolic name")

    __getitem__ = __iter__ = __add__ = __radd__ = __mul__ = __mod__ = __lt__ = __le__ = __gt__ = __ge__ = _unsupported
    strip = lstrip = rstrip = lower = upper = split = replace = encode = find = index = count = casefold = title = _unsupported
    join = partition = rpartition = splitlines = translate = zfill = center = ljust = rjust = swapcase = capitalize = _unsupported


def inject_re():
    import sys
    sr = SymRe()
    for name, mod in list(sys.modules.items()):
        if name == "smoothmath" or name.startswith("smoothmath."):
            if "re" in mod.__dict__ and mod.__dict__["re"] is _re:
                mod.__dict__["re"] = sr
            for k, v in list(mod.__dict__.items()):
                if isinstance(v, _re.Pattern):
                    mod.__dict__[k] = SymPattern(v.pattern, v.flags)
