"""Concrete replay: run a job's calls on the real, un-instrumented smoothmath with ordinary floats.

Usage: /venv/bin/python /verif/harness/replay_runner.py  < request.json  > outcomes.json
request = {"spec": <job spec>, "inputs": {name: ["hex", "0x1.8p+1"] | ["int", 3] | number}, "neutralise": [..]}
Imports smoothmath from /repo/src (current working tree).  No z3, no proxies, no namespace shadowing.
"""
import json
import os
import sys

HERE = os.path.dirname(os.path.abspath(__file__))
sys.path.insert(0, os.path.dirname(HERE))
sys.path.insert(0, os.environ.get("SMOOTHMATH_SRC", "/repo/src"))


def decode(v):
    if isinstance(v, list):
        if v[0] == "hex":
            return float.fromhex(v[1])
        if v[0] == "int":
            return int(v[1])
        if v[0] == "str":
            return v[1]
    return v


def encode_out(o):
    r = {"kind": o["kind"]}
    if "msg" in o:
        r["msg"] = o["msg"]
    if "value" in o:
        v = o["value"]
        if isinstance(v, bool):
            r["value"] = v
            r["vtype"] = "bool"
        elif isinstance(v, int):
            r["value"] = v
            r["vtype"] = "int"
        elif isinstance(v, float):
            r["value"] = v.hex() if v == v and v not in (float("inf"), float("-inf")) else repr(v)
            r["vtype"] = "float"
        elif isinstance(v, complex):
            r["value"] = repr(v)
            r["vtype"] = "complex"
        elif isinstance(v, list) and all(isinstance(x, (int, float)) and not isinstance(x, bool) for x in v):
            r["value"] = [float(x).hex() if x == x and x not in (float("inf"), float("-inf")) else repr(x) for x in v]
            r["vtype"] = "numlist"
        elif isinstance(v, (str, list, dict, type(None))):
            r["value"] = v
            r["vtype"] = type(v).__name__
        else:
            r["value"] = repr(v)
            r["vtype"] = type(v).__name__
    return r


def neutralise(which):
    from harness import neutralise as nz
    return nz.install(which)


def main():
    req = json.load(sys.stdin)
    import smoothmath  # noqa: F401
    from harness import concrete
    import harness.modes  # noqa: F401  (registers the additional execution modes)
    if req.get("neutralise"):
        neutralise(req["neutralise"])
    env = {k: decode(v) for k, v in req["inputs"].items()}
    outs = concrete.execute(req["spec"], env)
    json.dump({"outs": [encode_out(o) for o in outs], "smoothmath": smoothmath.__file__}, sys.stdout)


if __name__ == "__main__":
    main()
