"""The calls a job makes on the smoothmath API - ONE implementation, used twice:

  * by the symbolic harness, with env mapping input names to SymReal/SymInt proxies, and
  * by the replay runner, with env mapping input names to plain floats/ints (un-instrumented interpreter).

So a replay executes exactly the calls that were explored symbolically.  Stdlib + smoothmath only.
"""
from harness import routes as rt


def coords(names, env, prefix=""):
    return {n: env[prefix + n] for n in names}


def exec_route(spec, env):
    """mode 'route': build spec['d'], optional warm-up operations at a second point, then one route."""
    sm, E = rt.ns()
    memo = {}
    if spec.get("may_reject"):
        # a parameter is an unconstrained solver variable: on the paths where the constructor rejects it there is no expression to talk about
        box = {}
        o = rt.outcome(lambda: box.setdefault("e", rt.build(spec["d"], env, memo)) and 0)
        if o["kind"] != "value":
            return [{"kind": "rejected", "msg": o["kind"]}]
        e = box["e"]
    else:
        e = rt.build(spec["d"], env, memo)
    vs = rt.variables_of(spec["d"])
    supplied = spec.get("supplied", vs)
    outs = []
    if spec.get("pre_variant"):
        # a DIFFERENT expression (same shape, another constant) is differentiated symbolically first, in the same process
        v = rt.build(spec["pre_variant"], env, {})
        outs.append(rt.outcome(lambda: [sm.Partial(v, spec["var"]).as_expression(), sm.Partial(v, spec["var"], compute_early=True),
                                        sm.Differential(v, compute_early=True), v._normalize()] and 0))
    p = rt.make_point(coords(supplied, env))
    for (r, target, pname) in spec.get("pre", []):
        tgt = e if target == "root" else memo[target]
        if r == "embed":
            # building other expressions around an existing object must not affect that object
            other = E.Variable("zz")
            o = rt.outcome(lambda: [E.Minus(tgt, other), E.Divide(other, tgt), E.Power(tgt, other), E.Add(other, tgt),
                                    E.Multiply(tgt, other, tgt), E.Negation(tgt), E.NthRoot(tgt, 3)] and 0)
        elif r == "asexp_partial":
            o = rt.outcome(lambda: sm.Partial(tgt, spec["var"]).as_expression())
        elif r == "normalize":
            o = rt.outcome(lambda: tgt._normalize())
        else:
            if pname == "":
                pt = p                                             # the main point itself: the very same Point OBJECT (possibly incomplete)
            elif pname == "=":
                pt = rt.make_point(coords(supplied, env))          # an equal but separately built main point
            else:
                pt = rt.make_point(coords(spec.get("pre_supplied", rt.variables_of(spec["d"])), env, pname + "_"))
            o = rt.run_route(r, tgt, spec.get("var"), pt)
        outs.append(o)
    reuse = spec.get("reuse_seq")
    for r in spec["routes"]:
        if reuse and r in rt.ROUTE_PARTS:
            # one long-lived object queried repeatedly, with the expression used through other entry points in between
            def pt(pn):
                return p if pn == "" else rt.make_point(coords(spec.get("pre_supplied", vs), env, pn + "_"))
            steps = [(st[0], pt(st[1])) if st[0] in ("obj", "comp", "at") else ("expr", st[1], pt(st[2])) for st in reuse]
            outs.append(rt.run_route_reusing(r, e, spec["vars"] if r.endswith("_all") else spec.get("var"), steps, p))
        else:
            v = spec["vars"] if r.endswith("_all") else ([spec["var"], spec["var2"]] if r.startswith("synth2") else spec.get("var"))
            outs.append(rt.run_route(r, e, v, p))
    return outs


MODES = {"route": exec_route}


def register(name):
    def deco(f):
        MODES[name] = f
        return f
    return deco


def execute(spec, env):
    return MODES[spec.get("mode", "route")](spec, env)


def input_names(spec):
    """names of all symbolic inputs of a route-mode spec: coordinates (main + warm-up points) and symbols"""
    vs = rt.variables_of(spec["d"])
    names = list(spec.get("supplied", vs))
    for n in spec.get("extra_inputs", []):
        if n not in names:
            names.append(n)
    pre_points = sorted({p for (_, _, p) in spec.get("pre", []) if p and p != "="} | {st[-1] for st in spec.get("reuse_seq", []) if st[-1]})
    for pn in pre_points:
        for v in spec.get("pre_supplied", vs):
            names.append(pn + "_" + v)
    for s in rt.syms_of(spec["d"]) + (rt.syms_of(spec["pre_variant"]) if spec.get("pre_variant") else []):
        if s not in names:
            names.append(s)
    return names
