"""Counterfactual attribution of known findings (DESIGN.md section 5): disable exactly the listed cause.

Stdlib + smoothmath only (used by the un-instrumented replay runner and by the symbolic harness)."""


def install(which):
    """returns a restore() callable"""
    import smoothmath.expression as E
    undo = []
    if "D3" in which:
        # D3: NthRoot(NthPower(u, m), n) => NthPower(NthRoot(u, n), m) is unsound for n, m both even (u < 0)
        orig = getattr(E.NthRoot, "_reduce_nth_root_of_mth_power", None)
        if orig is not None:
            def patched(self):
                inner = getattr(self, "_inner", None)
                if isinstance(inner, E.NthPower) and self.n % 2 == 0 and inner.n % 2 == 0:
                    return None
                return orig(self)
            E.NthRoot._reduce_nth_root_of_mth_power = patched
            undo.append(lambda: setattr(E.NthRoot, "_reduce_nth_root_of_mth_power", orig))

    def restore():
        for u in undo:
            u()
    restore.installed = len(undo)
    return restore
