"""Counterfactual attribution of known findings (DESIGN.md section 5): disable exactly the listed cause.

Stdlib + smoothmath only (used by the un-instrumented replay runner and by the symbolic harness)."""


def install(which):
    """returns a restore() callable"""
    import smoothmath.expression as E
    undo = []
    if "D3" in which:
        # D3: NthRoot(NthPower(u, m), n) => NthPower(NthRoot(u, n), m) is unsound for n, m both even (u < 0).
        # The rule is recognised by the SHAPE of its input and output, not by its name: every reducer method of NthRoot is wrapped;
        # a result NthPower(NthRoot(..)) produced from an NthRoot(NthPower(..)) with both parameters even is suppressed.
        def is_even(k):
            try:
                return int(k) % 2 == 0
            except Exception:  # noqa
                return False

        def wrap(name, orig):
            def patched(self, *a, **k):
                r = orig(self, *a, **k)
                inner = getattr(self, "_inner", None)
                if (r is not None and isinstance(self, E.NthRoot) and isinstance(inner, E.NthPower) and is_even(self.n) and is_even(inner.n)
                        and isinstance(r, E.NthPower) and isinstance(getattr(r, "_inner", None), E.NthRoot)):
                    return None
                return r
            setattr(E.NthRoot, name, patched)
            undo.append(lambda: setattr(E.NthRoot, name, orig))
        for name, f in list(vars(E.NthRoot).items()):
            if callable(f) and "reduce" in name and not isinstance(f, property):
                wrap(name, f)

    def restore():
        for u in undo:
            u()
    restore.installed = len(undo)
    return restore
