"""Descriptors -> smoothmath objects, and the API routes exercised by the checks.

Stdlib + smoothmath only: this module is imported both by the symbolic harness (with the smoothmath
namespaces instrumented) and by the replay runner (plain /venv/bin/python, no instrumentation).
Only the public API is used, except `_normalize` / `_take_reduction_step` / `_fully_reduce`, which the
properties C08/C11 speak about (feature-detected by the callers).
"""
import math


def ns():
    import smoothmath
    import smoothmath.expression as E
    return smoothmath, E


def resolve(v, env):
    """number spec -> number: plain number | ["sym", name] (looked up in env) | ["q", num, den]"""
    if isinstance(v, (list, tuple)):
        if v[0] == "sym":
            return env[v[1]]
        if v[0] == "q":
            return v[1] / v[2]
        if v[0] == "float":
            return float(v[1])
        if v[0] == "hex":
            return float.fromhex(v[1])
        raise KeyError(v[0])
    return v


UNARY = ("Negation", "Reciprocal", "Sine", "Cosine")
BINARY = ("Minus", "Divide", "Power")
NARY = ("Add", "Multiply")
PARAM_N = ("NthPower", "NthRoot")
PARAM_BASE = ("Exponential", "Logarithm")
ALL_KINDS = ("var", "const") + UNARY + BINARY + NARY + PARAM_N + PARAM_BASE


def build(d, env=None, memo=None):
    """build the smoothmath expression of a descriptor through the public constructors"""
    _, E = ns()
    env = env if env is not None else {}
    memo = memo if memo is not None else {}
    k = d[0]
    if k == "share":
        if d[1] not in memo:
            memo[d[1]] = build(d[2], env, memo)
        return memo[d[1]]
    if k == "var":
        return E.Variable(d[1])
    if k == "const":
        return E.Constant(resolve(d[1], env))
    if k in PARAM_N:
        return getattr(E, k)(build(d[1], env, memo), resolve(d[2], env))
    if k in PARAM_BASE:
        if len(d) == 2:
            return getattr(E, k)(build(d[1], env, memo))
        return getattr(E, k)(build(d[1], env, memo), base=resolve(d[2], env))
    return getattr(E, k)(*[build(c, env, memo) for c in d[1:]])


def strip_share(d):
    if d[0] == "share":
        return strip_share(d[2])
    if d[0] in ("var", "const"):
        return list(d)
    if d[0] in PARAM_N or d[0] in PARAM_BASE:
        return [d[0], strip_share(d[1])] + list(d[2:])
    return [d[0]] + [strip_share(c) for c in d[1:]]


def variables_of(d):
    if d[0] == "share":
        return variables_of(d[2])
    if d[0] == "var":
        return [d[1]]
    if d[0] == "const":
        return []
    out = []
    kids = d[1:2] if (d[0] in PARAM_N or d[0] in PARAM_BASE) else d[1:]
    for c in kids:
        for v in variables_of(c):
            if v not in out:
                out.append(v)
    return out


def syms_of(d):
    """names of symbolic constants / parameters in a descriptor"""
    out = []

    def num(v):
        if isinstance(v, (list, tuple)) and v[0] == "sym" and v[1] not in out:
            out.append(v[1])

    def walk(d):
        if d[0] == "share":
            walk(d[2])
        elif d[0] == "const":
            num(d[1])
        elif d[0] == "var":
            pass
        elif d[0] in PARAM_N or d[0] in PARAM_BASE:
            walk(d[1])
            if len(d) > 2:
                num(d[2])
        else:
            for c in d[1:]:
                walk(c)
    walk(d)
    return out


def size_of(d):
    if d[0] == "share":
        return size_of(d[2])
    if d[0] in ("var", "const"):
        return 1
    kids = d[1:2] if (d[0] in PARAM_N or d[0] in PARAM_BASE) else d[1:]
    return 1 + sum(size_of(c) for c in kids)


def outcome(thunk, passthrough=()):
    """run a thunk of API calls and classify what comes out (BaseException = engine control: propagates)"""
    sm, _ = ns()
    try:
        v = thunk()
    except passthrough:
        raise
    except sm.DomainError as e:
        return {"kind": "DomainError", "msg": str(e)[:200]}
    except sm.CoordinateMissing as e:
        return {"kind": "CoordinateMissing", "msg": str(e)[:200]}
    except Exception as e:  # only Exception: engine control flow is BaseException
        return {"kind": "exc:" + type(e).__name__, "msg": str(e)[:200]}
    if type(v).__name__ == "SymComplex" or isinstance(v, complex):
        return {"kind": "complex", "value": v}
    return {"kind": "value", "value": v}


# ---------------------------------------------------------------- routes
# every route: f(sm, E, e, v, p) with e an expression, v a variable name, p a Point.

def _num(p, e, v):
    # the bare-number spelling of a one-variable point
    names = list(p._coordinates.keys()) if hasattr(p, "_coordinates") else [v]
    return p.coordinate(names[0] if len(names) == 1 else v)


def _with_steps_bound(k, thunk):
    import logging
    import smoothmath._private.base_expression.expression as be
    old = getattr(be, "REDUCTION_STEPS_BOUND", None)
    if old is not None:
        be.REDUCTION_STEPS_BOUND = k
    logging.disable(logging.CRITICAL)
    try:
        return thunk()
    finally:
        logging.disable(logging.NOTSET)
        if old is not None:
            be.REDUCTION_STEPS_BOUND = old


def _after_asexp(obj):
    obj.as_expression()
    return obj


ROUTES = {
    # evaluation
    "eval": lambda sm, E, e, v, p: e.at(p),
    "eval_num": lambda sm, E, e, v, p: e.at(_num(p, e, v)),
    # forward mode, late
    "fwd": lambda sm, E, e, v, p: sm.Partial(e, v).at(p),
    "fwd_obj": lambda sm, E, e, v, p: sm.Partial(e, E.Variable(v)).at(p),
    "deriv": lambda sm, E, e, v, p: sm.Derivative(e).at(p),
    "deriv_num": lambda sm, E, e, v, p: sm.Derivative(e).at(_num(p, e, v)),
    # reverse mode, late
    "rev": lambda sm, E, e, v, p: sm.LocatedDifferential(e, p).component(v),
    "rev_obj": lambda sm, E, e, v, p: sm.LocatedDifferential(e, p).component(E.Variable(v)),
    "diff_at": lambda sm, E, e, v, p: sm.Differential(e).at(p).component(v),
    "diff_comp_at": lambda sm, E, e, v, p: sm.Differential(e).component_at(v, p),
    "diff_comp": lambda sm, E, e, v, p: sm.Differential(e).component(v).at(p),
    # early
    "fwd_early": lambda sm, E, e, v, p: sm.Partial(e, v, compute_early=True).at(p),
    "deriv_early": lambda sm, E, e, v, p: sm.Derivative(e, compute_early=True).at(p),
    "diff_at_early": lambda sm, E, e, v, p: sm.Differential(e, compute_early=True).at(p).component(v),
    "diff_comp_at_early": lambda sm, E, e, v, p: sm.Differential(e, compute_early=True).component_at(v, p),
    "diff_comp_early": lambda sm, E, e, v, p: sm.Differential(e, compute_early=True).component(E.Variable(v)).at(p),
    # late objects after as_expression() was called on them (switches them to the symbolic path)
    "fwd_after_asexp": lambda sm, E, e, v, p: _after_asexp(sm.Partial(e, v)).at(p),
    "deriv_after_asexp": lambda sm, E, e, v, p: _after_asexp(sm.Derivative(e)).at(p),
    "diff_comp_after_asexp": lambda sm, E, e, v, p: _after_asexp(sm.Differential(e).component(v)).at(p),
    # symbolic derivatives evaluated as ordinary expressions
    "synth_fwd": lambda sm, E, e, v, p: sm.Partial(e, v).as_expression().at(p),
    "synth_deriv": lambda sm, E, e, v, p: sm.Derivative(e).as_expression().at(p),
    "synth_rev": lambda sm, E, e, v, p: sm.Differential(e, compute_early=True).component(v).as_expression().at(p),
    # all components at once (v is a list of variable names)
    "rev_all": lambda sm, E, e, v, p: (lambda ld: [ld.component(w) for w in v])(sm.LocatedDifferential(e, p)),
    "diff_at_all": lambda sm, E, e, v, p: (lambda ld: [ld.component(w) for w in v])(sm.Differential(e).at(p)),
    "diff_at_early_all": lambda sm, E, e, v, p: (lambda ld: [ld.component(w) for w in v])(sm.Differential(e, compute_early=True).at(p)),
    # second order: differentiate the returned expression once more (v = [v1, v2] passed via var/var2 by the caller)
    "synth2_fwd": lambda sm, E, e, v, p: sm.Partial(sm.Partial(e, v[0]).as_expression(), v[1]).at(p),
    "synth2_rev": lambda sm, E, e, v, p: sm.LocatedDifferential(
        sm.Differential(e, compute_early=True).component(v[0]).as_expression(), p).component(v[1]),
    # structural claims (booleans computed with the library's own ==)
    "struct_partial_early_late": lambda sm, E, e, v, p: bool(sm.Partial(e, v, compute_early=True).as_expression() == sm.Partial(e, v).as_expression()),
    "struct_deriv_early_late": lambda sm, E, e, v, p: bool(sm.Derivative(e, compute_early=True).as_expression() == sm.Derivative(e).as_expression()),
    "struct_diff_early_late": lambda sm, E, e, v, p: bool(sm.Differential(e, compute_early=True).component(v).as_expression() == sm.Differential(e).component(v).as_expression()),
    "eq_diff_component_partial": lambda sm, E, e, v, p: bool(sm.Differential(e).component(v) == sm.Partial(e, v)) and bool(sm.Differential(e, compute_early=True).component(E.Variable(v)) == sm.Partial(e, v)),
    # the same equalities between USED objects: each side has computed and stored its symbolic partial by its own route, was hashed and queried
    "eq_diff_component_partial_used": lambda sm, E, e, v, p: _eq_used(sm, E, e, v, p),
    "eq_diff_at_located": lambda sm, E, e, v, p: bool(sm.Differential(e).at(p) == sm.LocatedDifferential(e, p)) and bool(sm.Differential(e, compute_early=True).at(p) == sm.LocatedDifferential(e, p)),
    # the late Differential's component written as an expression, evaluated (companion of struct_diff_early_late)
    "synth_diff_late": lambda sm, E, e, v, p: sm.Differential(e).component(v).as_expression().at(p),
    # as_expression() must hand back an expression
    "asexp_fwd": lambda sm, E, e, v, p: isinstance(sm.Partial(e, v).as_expression(), sm.Expression),
    "asexp_rev": lambda sm, E, e, v, p: isinstance(sm.Differential(e, compute_early=True).component(v).as_expression(), sm.Expression),
    "asexp_deriv": lambda sm, E, e, v, p: isinstance(sm.Derivative(e).as_expression(), sm.Expression),
    # the rewriter's give-up path (step budget forced to 2): as_expression() must still hand back an expression
    "asexp_giveup": lambda sm, E, e, v, p: _with_steps_bound(2, lambda: isinstance(sm.Partial(e, v).as_expression(), sm.Expression)),
    "norm_giveup": lambda sm, E, e, v, p: _with_steps_bound(3, lambda: isinstance(e._normalize(), sm.Expression)),
    # simplification
    "norm": lambda sm, E, e, v, p: e._normalize().at(p),
}

# (make the derivative object, query it): lets a check keep ONE derivative object alive across several points
ROUTE_PARTS = {
    "fwd": (lambda sm, E, e, v: sm.Partial(e, v), lambda sm, E, o, v, p: o.at(p)),
    "fwd_obj": (lambda sm, E, e, v: sm.Partial(e, E.Variable(v)), lambda sm, E, o, v, p: o.at(p)),
    "deriv": (lambda sm, E, e, v: sm.Derivative(e), lambda sm, E, o, v, p: o.at(p)),
    "diff_at": (lambda sm, E, e, v: sm.Differential(e), lambda sm, E, o, v, p: o.at(p).component(v)),
    "diff_comp_at": (lambda sm, E, e, v: sm.Differential(e), lambda sm, E, o, v, p: o.component_at(v, p)),
    "diff_comp": (lambda sm, E, e, v: sm.Differential(e).component(v), lambda sm, E, o, v, p: o.at(p)),
    "fwd_early": (lambda sm, E, e, v: sm.Partial(e, v, compute_early=True), lambda sm, E, o, v, p: o.at(p)),
    "deriv_early": (lambda sm, E, e, v: sm.Derivative(e, compute_early=True), lambda sm, E, o, v, p: o.at(p)),
    "diff_at_early": (lambda sm, E, e, v: sm.Differential(e, compute_early=True), lambda sm, E, o, v, p: o.at(p).component(v)),
    "diff_comp_at_early": (lambda sm, E, e, v: sm.Differential(e, compute_early=True), lambda sm, E, o, v, p: o.component_at(v, p)),
    "fwd_after_asexp": (lambda sm, E, e, v: _after_asexp(sm.Partial(e, v)), lambda sm, E, o, v, p: o.at(p)),
    "eval": (lambda sm, E, e, v: e, lambda sm, E, o, v, p: o.at(p)),
    "synth_fwd": (lambda sm, E, e, v: sm.Partial(e, v), lambda sm, E, o, v, p: o.as_expression().at(p)),
    "synth_rev": (lambda sm, E, e, v: sm.Differential(e, compute_early=True), lambda sm, E, o, v, p: o.component(v).as_expression().at(p)),
    "synth_diff_late": (lambda sm, E, e, v: sm.Differential(e), lambda sm, E, o, v, p: o.component(v).as_expression().at(p)),
    "synth_deriv": (lambda sm, E, e, v: sm.Derivative(e, compute_early=True), lambda sm, E, o, v, p: o.as_expression().at(p)),
    "diff_at_all": (lambda sm, E, e, v: sm.Differential(e), lambda sm, E, o, v, p: (lambda ld: [ld.component(w) for w in v])(o.at(p))),
    "diff_at_early_all": (lambda sm, E, e, v: sm.Differential(e, compute_early=True), lambda sm, E, o, v, p: (lambda ld: [ld.component(w) for w in v])(o.at(p))),
}

LATE_NUMERIC = ["fwd", "fwd_obj", "rev", "rev_obj", "diff_at", "diff_comp_at", "diff_comp"]
EARLY_NUMERIC = ["fwd_early", "diff_at_early", "diff_comp_at_early", "diff_comp_early"]
AFTER_ASEXP = ["fwd_after_asexp", "diff_comp_after_asexp"]
ONE_VAR_ONLY = ["deriv", "deriv_num", "deriv_early", "deriv_after_asexp", "eval_num", "synth_deriv"]
SYNTH = ["synth_fwd", "synth_rev"]
ALL_DERIVATIVE_ROUTES = LATE_NUMERIC + EARLY_NUMERIC + AFTER_ASEXP + ["deriv", "deriv_num", "deriv_early", "deriv_after_asexp"]


def run_route(route, e, v, p, passthrough=()):
    sm, E = ns()
    f = ROUTES[route]
    return outcome(lambda: f(sm, E, e, v, p), passthrough)


def run_route_reusing(route, e, v, steps, p):
    """build the route's object ONCE; steps: ("obj", point) queries that same object (outcome discarded),
    ("expr", other_route, point) uses the expression through another entry point; finally query the object at p"""
    sm, E = ns()
    make, query = ROUTE_PARTS[route]
    box = {}

    def thunk():
        box["o"] = make(sm, E, e, v)
        for st in steps:
            if st[0] == "obj":
                outcome(lambda: query(sm, E, box["o"], v, st[1]))
            elif st[0] == "at":
                outcome(lambda: box["o"].at(st[1]))          # Partial/Derivative: a number; Differential: a LocatedDifferential
            elif st[0] == "comp":
                # one single component is requested first (a Differential must not conclude that it now knows all of them)
                w = v[0] if isinstance(v, list) else v
                outcome(lambda: box["o"].component_at(w, st[1]) if hasattr(box["o"], "component_at") else box["o"].at(st[1]))
                outcome(lambda: box["o"].component(w).as_expression() if hasattr(box["o"], "component") else 0)
            else:
                run_route(st[1], e, v, st[2])
        return query(sm, E, box["o"], v, p)
    return outcome(thunk)


def _eq_used(sm, E, e, v, p):
    q1 = sm.Differential(e, compute_early=True).component(v)
    q0 = sm.Differential(e).component(E.Variable(v))
    pl = sm.Partial(e, v)
    pe = sm.Partial(e, v, compute_early=True)
    for o in (pl, q0):
        outcome(lambda: o.as_expression())
        outcome(lambda: hash(o))
        outcome(lambda: o.at(p))
    return (bool(q1 == pl) and bool(pl == q1) and bool(q0 == pl) and bool(pe == pl) and bool(q1 == q0) and bool(pe == q1)
            and bool(sm.Partial(e, v) == pl) and bool(pl == sm.Partial(e, v)) and hash(pl) == hash(q1) == hash(q0) == hash(pe))


def make_point(coords):
    sm, _ = ns()
    return sm.Point(**coords)


def e_float():
    return math.e
