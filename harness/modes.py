"""Additional execution modes (beyond 'route'), registered into harness.concrete.MODES.

Stdlib + smoothmath only (imported by the un-instrumented replay runner as well).
"""
from harness import concrete
from harness import routes as rt


def _steps_bound(k):
    import smoothmath._private.base_expression.expression as be
    old = getattr(be, "REDUCTION_STEPS_BOUND", None)
    if old is not None and k is not None:
        be.REDUCTION_STEPS_BOUND = k
    return be, old


@concrete.register("simplify")
def exec_simplify(spec, env):
    """C08/C11: simplify spec['d'] and evaluate input, (intermediate,) and final forms at the same point.
    what = pass: e.at(p), e._normalize(), normalized.at(p)
           steps: additionally every intermediate form of e._take_reduction_step() iteration
           giveup: as pass but with REDUCTION_STEPS_BOUND forced to spec['bound'] (the rewriter gives up early)"""
    import logging
    sm, E = rt.ns()
    e = rt.build(spec["d"], env, {})
    vs = rt.variables_of(spec["d"])
    p = rt.make_point(concrete.coords(spec.get("supplied", vs), env))
    what = spec.get("what", "pass")
    outs = [rt.outcome(lambda: e.at(p))]
    if spec.get("pre_eval"):
        # the input's LAST evaluation before it is simplified was at ANOTHER point q (its caches hold q-values, possibly of a failed evaluation)
        q = rt.make_point(concrete.coords(spec.get("supplied", vs), env, "q_"))
        rt.outcome(lambda: sm.Partial(e, (vs or ["x"])[0]).at(q))
        rt.outcome(lambda: e.at(q))
    forms = []
    logging.disable(logging.CRITICAL)
    be, old = _steps_bound(spec.get("bound") if what == "giveup" else None)
    try:
        if what == "steps":
            def walk():
                cur = e
                for _ in range(spec.get("max_steps", 400)):
                    if cur._is_fully_reduced:
                        break
                    cur = cur._take_reduction_step()
                    forms.append(cur)
                forms.append(cur._normalize_fully_reduced())
                return len(forms)
            outs.append(rt.outcome(walk))
        else:
            def norm():
                forms.append(e._normalize())
                return 1
            outs.append(rt.outcome(norm))
    finally:
        if old is not None:
            be.REDUCTION_STEPS_BOUND = old
        logging.disable(logging.NOTSET)
    if spec.get("again"):
        # simplifying a second time (flags are set now) must give the same meaning
        outs.append(rt.outcome(lambda: forms.append(e._normalize()) or 1))
    if spec.get("reuse_after_giveup"):
        # the SAME input object (on which the rewriter gave up) is reused inside a new expression that is simplified with the normal budget:
        # forms[-1] is then Minus(Reciprocal-free spelling): value(e) itself, obtained as Negation(Negation(e)) / Reciprocal(Reciprocal(e))
        wrap = spec["reuse_after_giveup"]
        outer = {"negneg": lambda: E.Negation(E.Negation(e)), "addzero": lambda: E.Add(e, E.Constant(0)), "mulone": lambda: E.Multiply(E.Constant(1), e),
                 "recrec": lambda: E.Reciprocal(E.Reciprocal(e))}[wrap]
        outs.append(rt.outcome(lambda: forms.append(outer()._normalize()) or 1))
    for f in forms:
        outs.append(rt.outcome(lambda: f.at(p)))
    return outs


# ------------------------------------------------------------------------------------------ histories (C09, C10)

def pool_A(E, env):
    x, y = E.Variable("x"), E.Variable("y")
    s = E.Reciprocal(E.Multiply(x, y))                 # shared sub-expression object
    return {"s": s, "e1": E.Add(E.Sine(s), x), "e2": E.Multiply(E.Logarithm(s), y), "e3": E.NthRoot(s, 3)}


def pool_B(E, env):
    x, y = E.Variable("x"), E.Variable("y")
    s = E.Add(x, y)
    return {"s": s, "e1": E.Multiply(s, s), "e2": E.Power(s, x), "e3": E.Divide(x, s)}


def pool_C(E, env):
    # structurally equal but separately constructed operands
    x, y = E.Variable("x"), E.Variable("y")
    a1, a2 = E.Add(x, y), E.Add(x, y)
    return {"s": a1, "e1": E.Multiply(a1, a2), "e2": E.Add(E.NthPower(x, 3), E.NthPower(x, 3), y),
            "e3": E.Multiply(E.Exponential(E.Multiply(x, y)), E.Exponential(E.Multiply(x, y))),
            "b1": E.Power(E.Add(x, E.Constant(1)), E.Add(x, E.Constant(1))), "b2": E.Minus(E.NthPower(x, 2), E.NthPower(x, 2)),
            "b3": E.Divide(E.Sine(E.Multiply(x, y)), E.Sine(E.Multiply(x, y)))}


def pool_D(E, env):
    x, y = E.Variable("x"), E.Variable("y")
    u = E.Minus(x, E.Constant(1))
    return {"s": u, "e1": E.Logarithm(u), "e2": E.Multiply(E.Reciprocal(u), y), "e3": E.NthPower(E.Add(E.Multiply(x, y), E.Constant(1)), 3)}


def pool_E(E, env):
    # simplifier-heavy: nested sums/products, roots of roots, shared inner nodes
    x, y = E.Variable("x"), E.Variable("y")
    r = E.NthRoot(x, 2)
    a = E.Add(x, y)
    return {"s": r, "e1": E.Add(E.NthRoot(r, 3), r), "e2": E.Exponential(E.Add(a, E.Constant(1))), "e3": E.Multiply(y, E.Logarithm(x)),
            "a": a}


def pool_F(E, env):
    # inside the region of known finding D3 (even root of an even power)
    x, y = E.Variable("x"), E.Variable("y")
    s = E.NthPower(x, 2)
    return {"s": s, "e1": E.Multiply(E.NthRoot(s, 2), y), "e2": E.NthRoot(E.Multiply(s, E.NthPower(y, 2)), 4), "e3": E.Add(E.NthRoot(s, 2), y)}


def pool_G(E, env):
    # one-variable expressions (so that a bare number is accepted in place of a point)
    x = E.Variable("x")
    s = E.Add(x, E.Constant(1))
    return {"s": s, "e1": E.NthPower(s, 2), "e2": E.Sine(x), "e3": E.Multiply(s, x), "v": x}


def pool_H(E, env):
    # unary nodes over sub-trees that are already reduced but not in normal form (Add(u, Negation(v)), Multiply(u, Reciprocal(v)))
    x, y = E.Variable("x"), E.Variable("y")
    a = E.Add(x, E.Negation(y))
    m = E.Multiply(x, E.Reciprocal(y))
    return {"s": a, "e1": E.Sine(a), "e2": E.Exponential(m), "e3": E.Logarithm(E.NthRoot(E.Negation(a), 3)), "m": m}


def pool_I(E, env):
    # a variable-free sub-expression that is undefined as written but still reducible, shared and occurring twice
    x, y = E.Variable("x"), E.Variable("y")
    u = E.Reciprocal(E.Reciprocal(E.Constant(0)))
    w = E.Negation(E.Negation(E.Logarithm(E.Constant(0))))
    return {"s": u, "e1": E.Add(E.Sine(x), E.Constant(2), u, E.Constant(3)), "e2": E.Multiply(u, y, u), "e3": E.Add(x, E.Multiply(w, y)), "w": w}


def pool_J(E, env):
    # float-spelled and negative-zero constants next to variables
    x, y = E.Variable("x"), E.Variable("y")
    c = E.Constant(2.0)
    return {"s": c, "e1": E.Add(E.Multiply(c, x), E.Constant(0.5)), "e2": E.Multiply(E.Constant(3.0), y, E.Power(x, c)), "e3": E.Minus(E.Constant(1e22), E.Multiply(c, y))}


def pool_K(E, env):
    # sums / products with a term whose offending sub-expression is removed by simplification (the domain only grows for the RESULT, never for the input object)
    x, y = E.Variable("x"), E.Variable("y")
    t = E.Multiply(E.Constant(0), E.Logarithm(x))
    return {"s": t, "e1": E.Add(t, y), "e2": E.Multiply(E.NthPower(E.NthRoot(x, 2), 2), y), "e3": E.Add(E.Reciprocal(E.Reciprocal(x)), y)}


def pool_L(E, env):
    # a variable-free, perfectly defined sub-expression shared with expressions that get constant-folded
    x, y = E.Variable("x"), E.Variable("y")
    c = E.Logarithm(E.Constant(8), 2)
    d = E.Divide(E.Constant(1), E.Constant(4))
    return {"s": c, "e1": E.Multiply(c, E.NthPower(x, 2)), "e2": E.Add(E.Multiply(d, y), c), "e3": E.Power(x, d), "d": d}


def pool_M(E, env):
    # products WITHOUT a reciprocal factor that contain a factor in reduced-but-not-normal form (Add(u, Negation(v)))
    x, y = E.Variable("x"), E.Variable("y")
    a = E.Add(y, E.Negation(x))
    return {"s": a, "e1": E.Multiply(x, a), "e2": E.Exponential(E.Multiply(x, a)), "e3": E.Multiply(E.Sine(a), y, a), "n": E.Add(x, E.Negation(E.Multiply(y, a)))}


POOLS = {"M": pool_M, "L": pool_L, "K": pool_K, "J": pool_J, "I": pool_I, "H": pool_H, "G": pool_G, "F": pool_F, "A": pool_A, "B": pool_B, "C": pool_C, "D": pool_D, "E": pool_E}
CREATORS = ("mk", "mkexpr")


def _symq(n, d):
    """exact rational constants print as SYMQ(n, d) under the symbolic engine (never in a concrete run)"""
    try:
        import fractions
        from symreal import core
        return core.SymReal(core.Q(fractions.Fraction(n, d)))
    except ImportError:
        return n / d


def parse_constructor_text(text, scope):
    """evaluates printed constructor calls  Name(arg, ..., key=value)  with an explicit stack (no nesting limit); leaves (numbers, strings,
    tokens) are evaluated with eval in `scope`"""
    import re
    tok = re.compile(r'\s*(?:([A-Za-z_][A-Za-z_0-9]*)\s*(\()|([A-Za-z_][A-Za-z_0-9]*)\s*=|("(?:[^"\\]|\\.)*"|\'(?:[^\'\\]|\\.)*\')|([^(),=\s][^(),=]*)|([(),]))')
    pos, n = 0, len(text)
    stack = []          # frames: [callable, args, kwargs, pending_key]
    result = None
    while pos < n:
        m = tok.match(text, pos)
        if not m:
            if text[pos:].strip() == "":
                break
            raise SyntaxError(f"cannot parse printed form at {pos}: {text[pos:pos + 30]!r}")
        pos = m.end()
        if m.group(1):                       # Name(
            stack.append([scope[m.group(1)], [], {}, None])
        elif m.group(3):                     # key=
            stack[-1][3] = m.group(3)
        elif m.group(4) or m.group(5):       # leaf
            v = eval((m.group(4) or m.group(5)).strip(), {"__builtins__": {}}, scope)
            fr = stack[-1]
            if fr[3] is not None:
                fr[2][fr[3]] = v
                fr[3] = None
            else:
                fr[1].append(v)
        elif m.group(6) == ")":
            f, a, k, _ = stack.pop()
            v = f(*a, **k)
            if stack:
                fr = stack[-1]
                if fr[3] is not None:
                    fr[2][fr[3]] = v
                    fr[3] = None
                else:
                    fr[1].append(v)
            else:
                result = v
        # "," and a stray "(" need no action
    return result


def _symbolic_scope():
    """names that only occur in printed forms under the symbolic engine: exact rationals and opaque tokens of symbolic numbers"""
    scope = {"SYMQ": _symq}
    try:
        from symreal import core
        for (kind, _), (name, term) in list(core._TOKENS.items()):
            scope[name] = core.SymInt(term) if kind == "I" else core.SymReal(term)
        fresh = [0]

        def lossy(text, spec):
            import z3
            fresh[0] += 1
            return core.SymReal(z3.Real(f"lossy_{fresh[0]}"))
        scope["LOSSY"] = lossy
    except ImportError:
        pass
    return scope


def clone(obj, sm, E):
    """a freshly built structural copy: the printed constructor call evaluated with the public names in scope"""
    text = repr(obj)                    # (first: printing registers the opaque tokens of symbolic numbers)
    scope = {k: getattr(E, k) for k in E.__all__}
    scope.update({k: getattr(sm, k) for k in sm.__all__})
    scope.update(_symbolic_scope())
    if text.count("(") > 60:
        return parse_constructor_text(text, scope)       # Python's own parser gives up beyond ~200 nested parentheses
    return eval(text, {"__builtins__": {}}, scope)


class Shown:
    """an expression handed out by an operation: compared with the library's own ==, printed for the record"""

    def __init__(self, x):
        self.x = x

    def __repr__(self):
        return repr(self.x)


def _show(x):
    return Shown(x)


def run_op(op, objs, pts, sm, E):
    k = op[0]
    if k in ("q", "qat", "qld", "qasexp") and op[1] not in objs:
        return {"kind": "not-created", "msg": "the object's construction raised (e.g. a LocatedDifferential outside the domain)"}
    if k == "at":
        return rt.outcome(lambda: objs[op[1]].at(pts[op[2]]))
    if k == "fwd":
        return rt.outcome(lambda: sm.Partial(objs[op[1]], "x").at(pts[op[2]]))
    if k == "fwd_y":
        return rt.outcome(lambda: sm.Partial(objs[op[1]], E.Variable("y")).at(pts[op[2]]))
    if k == "rev":
        return rt.outcome(lambda: sm.LocatedDifferential(objs[op[1]], pts[op[2]]).component("x"))
    if k == "early":
        return rt.outcome(lambda: sm.Partial(objs[op[1]], "x", compute_early=True).at(pts[op[2]]))
    if k == "diff_early":
        return rt.outcome(lambda: sm.Differential(objs[op[1]], compute_early=True).at(pts[op[2]]).component("y"))
    if k == "asexp":
        return rt.outcome(lambda: _show(sm.Partial(objs[op[1]], "x").as_expression()))
    if k == "asexp_rev":
        return rt.outcome(lambda: _show(sm.Differential(objs[op[1]], compute_early=True).component("y").as_expression()))
    if k == "norm":
        return rt.outcome(lambda: _show(objs[op[1]]._normalize()))
    if k == "hash":
        return rt.outcome(lambda: hash(objs[op[1]]) and 0)
    if k == "repr":
        return rt.outcome(lambda: (repr(objs[op[1]]), str(objs[op[1]])) and 0)
    if k == "embed":
        t = objs[op[1]]
        return rt.outcome(lambda: [E.Minus(t, E.Variable("zz")), E.Divide(E.Variable("zz"), t), E.Power(t, E.Variable("zz")),
                                   E.Add(E.Variable("zz"), t), E.Multiply(t, E.Variable("zz"), t), E.NthRoot(t, 3), t + t, t * t, -t] and 0)
    if k == "mk":
        kind, t = op[2], objs[op[3]]

        def mk():
            objs[op[1]] = {"partial": lambda: sm.Partial(t, "x"), "partial_early": lambda: sm.Partial(t, "x", compute_early=True),
                           "diff": lambda: sm.Differential(t), "diff_early": lambda: sm.Differential(t, compute_early=True),
                           "partial_y": lambda: sm.Partial(t, "y"), "partial_t": lambda: sm.Partial(t, "t"),
                           "located": lambda: sm.LocatedDifferential(t, pts["q"]), "located_via_diff": lambda: sm.Differential(t).at(pts["q"]),
                           "partial_t_early": lambda: sm.Partial(t, E.Variable("t"), compute_early=True)}[kind]()
            return 0
        return rt.outcome(mk)
    if k == "qld":
        o = objs[op[1]]
        return rt.outcome(lambda: [o.component("x"), o.component(E.Variable("y"))])
    if k == "q":
        o = objs[op[1]]
        if isinstance(o, sm.Differential):
            return rt.outcome(lambda: o.component_at("x", pts[op[2]]))
        return rt.outcome(lambda: o.at(pts[op[2]]))
    if k == "qat":
        o = objs[op[1]]
        if isinstance(o, sm.Differential):
            return rt.outcome(lambda: (lambda ld: [ld.component("x"), ld.component("y")])(o.at(pts[op[2]])))
        return rt.outcome(lambda: o.at(pts[op[2]]))
    if k == "qasexp":
        o = objs[op[1]]
        if isinstance(o, sm.Differential):
            return rt.outcome(lambda: _show(o.component("x").as_expression()))
        return rt.outcome(lambda: _show(o.as_expression()))
    if k == "mkexpr":
        # an expression handed out by an earlier call is used as an operand of a new expression
        how, t = op[2], objs[op[3]]

        def mk():
            if how == "recip_of_asexp":
                objs[op[1]] = E.Reciprocal(sm.Partial(t, "x").as_expression())
            elif how == "neg_of_norm":
                objs[op[1]] = E.Negation(t._normalize())
            elif how == "sum_with_asexp":
                objs[op[1]] = E.Add(sm.Partial(t, "y").as_expression(), E.Variable("y"))
            elif how == "prod_with_norm":
                objs[op[1]] = E.Multiply(t._normalize(), E.NthPower(E.Variable("y"), 2))
            return 0
        return rt.outcome(mk)
    raise KeyError(k)


def _points(spec, env, sm):
    pts = {}
    for pn in ("p", "q"):
        pts[pn] = sm.Point(x=env[pn + "_x"], y=env[pn + "_y"])
    pts["m"] = sm.Point(x=env["q_x"])                      # lacks y: CoordinateMissing part-way
    pts["p2"] = sm.Point(y=env["p_y"], x=env["p_x"])       # equal to p, a different object, coordinates written in another order
    pts["sw"] = sm.Point(y=env["q_x"], x=env["q_y"])       # q with the VALUES of x and y exchanged, written y first (so it reads like q positionally)
    return pts


@concrete.register("history")
def exec_history(spec, env):
    """run spec['hist'] on a pool with shared sub-expression objects, then the LAST operation again on a freshly built pool
    (only the object-creating operations of the history are repeated there).  outs = history outcomes + [fresh outcome]"""
    sm, E = rt.ns()
    pts = _points(spec, env, sm)
    objs = POOLS[spec["pool"]](E, env)
    outs = [run_op(op, objs, pts, sm, E) for op in spec["hist"]]
    fobjs = POOLS[spec["pool"]](E, env)
    for op in spec["hist"][:-1]:
        if op[0] in CREATORS:
            run_op(op, fobjs, pts, sm, E)
            if op[0] == "mkexpr" and op[1] in fobjs:
                fobjs[op[1]] = clone(fobjs[op[1]], sm, E)      # a never-used, freshly built equal copy
    outs.append(run_op(spec["hist"][-1], fobjs, pts, sm, E))
    a, b = outs[-2], outs[-1]
    if a["kind"] == b["kind"] == "value" and isinstance(a["value"], Shown) and isinstance(b["value"], Shown):
        # expressions: equal by the library's own structural ==
        x, y = a["value"].x, b["value"].x
        # equal by ==, and - being equal - with equal hashes and the same printed form
        outs.append(rt.outcome(lambda: bool(x == y) and bool(y == x) and hash(x) == hash(y) and repr(x) == repr(y)))
    else:
        outs.append({"kind": "value", "value": None})
    return outs


@concrete.register("operands")
def exec_operands(spec, env):
    """C10: run spec['hist'] on a pool; afterwards every pooled object (and every object created on the way) must still
    compare equal to, print as and evaluate like its twin in a pool on which only the creating operations were run."""
    sm, E = rt.ns()
    pts = _points(spec, env, sm)
    objs = POOLS[spec["pool"]](E, env)
    kept = {}
    if spec.get("keep"):
        # an expression returned to the caller, snapshotted before the originals are used further
        t = objs[spec["keep"][1]]
        kept["obj"] = sm.Partial(t, "x").as_expression() if spec["keep"][0] == "asexp" else t._normalize()
        kept["repr"] = repr(kept["obj"])
    for op in spec["hist"]:
        run_op(op, objs, pts, sm, E)
    fobjs = POOLS[spec["pool"]](E, env)
    for op in spec["hist"]:
        if op[0] in CREATORS:
            run_op(op, fobjs, pts, sm, E)
    outs = []
    for name in sorted(fobjs):
        a, b = objs[name], fobjs[name]
        outs.append(rt.outcome(lambda: repr(a)))
        outs.append(rt.outcome(lambda: repr(b)))
        outs.append(rt.outcome(lambda: bool(a == b) and bool(b == a) and (hash(a) == hash(b) if spec.get("hash", True) else True)))
        if isinstance(a, sm.Expression):
            outs.append(rt.outcome(lambda: a.at(pts["p"])))
            outs.append(rt.outcome(lambda: b.at(pts["p"])))
            outs.append(rt.outcome(lambda: a.at(env["p_x"])))      # bare number: accepted iff the object still mentions <= 1 variable
            outs.append(rt.outcome(lambda: b.at(env["p_x"])))
        elif isinstance(a, sm.Differential):
            # (located first, for every variable: a Differential that remembers single components must still know all of them)
            outs.append(rt.outcome(lambda: (lambda ld: [ld.component("x"), ld.component("y")])(a.at(pts["p"])) + [a.component_at("x", pts["p"]), a.component(E.Variable("y")).at(pts["p"])]))
            outs.append(rt.outcome(lambda: (lambda ld: [ld.component("x"), ld.component("y")])(b.at(pts["p"])) + [b.component_at("x", pts["p"]), b.component(E.Variable("y")).at(pts["p"])]))
            outs.append(rt.outcome(lambda: bool(a.component("x").as_expression() == b.component("x").as_expression())))     # the library's own ==
            outs.append({"kind": "value", "value": True})
        elif isinstance(a, (sm.Partial, sm.Derivative)):
            outs.append(rt.outcome(lambda: a.at(pts["p"])))
            outs.append(rt.outcome(lambda: b.at(pts["p"])))
            outs.append(rt.outcome(lambda: bool(a.as_expression() == b.as_expression())))
            outs.append({"kind": "value", "value": True})
        else:
            outs += [{"kind": "value", "value": 0}] * 4
    if kept:
        outs.append(rt.outcome(lambda: repr(kept["obj"])))
        outs.append({"kind": "value", "value": kept["repr"]})
        outs.append({"kind": "value", "value": True})
        outs += [{"kind": "value", "value": 0}] * 4
    return outs


@concrete.register("listutil")
def exec_listutil(spec, env):
    """C10: the copy-on-write list helpers with an arbitrary integer index"""
    import smoothmath._private.utilities as util
    n = spec["length"]
    entries = [f"e{k}" for k in range(n)]
    before = list(entries)
    i = env["i"]
    if spec["fn"] == "without":
        o = rt.outcome(lambda: util.list_without_entry_at(entries, i))
    else:
        o = rt.outcome(lambda: util.list_with_updated_entry_at(entries, i, "NEW"))
    outs = [o]
    outs.append({"kind": "value", "value": entries == before})                       # input list unchanged
    outs.append({"kind": "value", "value": o["kind"] == "value" and o["value"] is not entries})   # a new list object
    return outs


@concrete.register("pointdict")
def exec_pointdict(spec, env):
    """C10: mutating the caller's dict after Point(**kw) does not change the point"""
    sm, E = rt.ns()
    kw = {"x": env["x"], "y": env["y"]}
    p = sm.Point(**kw)
    e = E.Add(E.Multiply(E.Variable("x"), E.Variable("y")), E.Variable("x"))
    o1 = rt.outcome(lambda: e.at(p))
    kw["x"] = env["x2"]
    kw["z"] = env["x2"]
    del kw["y"]
    o2 = rt.outcome(lambda: e.at(p))
    o3 = rt.outcome(lambda: bool(p == sm.Point(x=env["x"], y=env["y"])) and repr(p) == repr(sm.Point(x=env["x"], y=env["y"])))
    return [o1, o2, o3]


# ------------------------------------------------------------------------------------------ construction (C15, C16, C12)

def _is_int(v):
    # plain interpreter: a real int; symbolic engine: the integer proxy
    return (isinstance(v, int) and not isinstance(v, bool)) or type(v).__name__ == "SymInt"


@concrete.register("param")
def exec_param(spec, env):
    """a parameterised constructor (or the ** operator) with an arbitrary numeric parameter
    outs: [construction outcome (value = class name), stored parameter, stored parameter is an int]"""
    sm, E = rt.ns()
    x = E.Variable("x")
    k = env["k"]
    what = spec["what"]
    box = {}

    def make():
        if what == "NthPower":
            box["o"] = E.NthPower(x, k)
        elif what == "NthRoot":
            box["o"] = E.NthRoot(x, n=k)
        elif what == "pow":
            box["o"] = x ** k
        elif what == "Exponential":
            box["o"] = E.Exponential(x, base=k)
        elif what == "Logarithm":
            box["o"] = E.Logarithm(x, k)
        elif what == "Constant":
            box["o"] = E.Constant(k)
        return type(box["o"]).__name__
    for _ in range(spec.get("attempts", 1) - 1):
        rt.outcome(make)                 # earlier attempts with the very same argument: the verdict must not depend on them
    o = rt.outcome(make)
    outs = [o]
    if o["kind"] == "value":
        obj = box["o"]
        attr = {"NthPower": "n", "NthRoot": "n", "pow": "n", "Exponential": "base", "Logarithm": "base", "Constant": "value"}[what]
        outs.append(rt.outcome(lambda: getattr(obj, attr)))
        outs.append({"kind": "value", "value": _is_int(getattr(obj, attr, None))})
    else:
        outs += [{"kind": "value", "value": None}, {"kind": "value", "value": None}]
    return outs


FOREIGN = ["None", "1", "2.5", "'x'", "()", "[]", "object()", "Point", "Partial", "True", "ExpressionClass"]


def foreign(name, sm, E):
    if name == "Point":
        return sm.Point(x=1)
    if name == "Partial":
        return sm.Partial(E.Variable("x"), "x")
    if name == "ExpressionClass":
        return E.Variable
    return eval(name, {"object": object})


def operand_exprs(E, env, need=()):
    x, y = E.Variable("x"), E.Variable("y")
    c = E.Constant(env["c"]) if "c" in env else E.Constant(2)
    sm = rt.ns()[0]
    # USED operands: they were operands of expressions that were differentiated / simplified (several times), hashed and printed before
    used = {"used_neg": E.Negation(x), "used_neg2": E.Negation(E.Sine(y)), "used_sum": E.Add(x, y), "used_pw": E.NthPower(x, 2),
            "used_rec": E.Reciprocal(E.Negation(x)), "used_prod": E.Multiply(E.Constant(-1), x)}
    for name, o in used.items():
        if name in need:
            age_object(o, ["parent_early", "parent_norm", "deriv_early", "norm", "hash", "repr", "at", "parent_early"], sm, E)
    return {**used, "x": x, "y": y, "c": c, "zero": E.Constant(0), "one": E.Constant(1), "two": E.Constant(2), "three_f": E.Constant(3.0),
            "neg": E.Negation(x), "sum": E.Add(x, y), "sum0": E.Add(), "prod": E.Multiply(x, y, c), "rec": E.Reciprocal(y),
            "pw": E.NthPower(x, 2), "rt": E.NthRoot(y, 3), "ex": E.Exponential(x, 2), "lg": E.Logarithm(y), "sin": E.Sine(x),
            "min": E.Minus(x, y), "div": E.Divide(x, c), "pwr": E.Power(x, y)}


@concrete.register("operators")
def exec_operators(spec, env):
    """C15: operator syntax against the constructor-built twin (== both ways, same printed form, same class)"""
    sm, E = rt.ns()
    ops = operand_exprs(E, env, (spec["a"], spec["b"]))
    a, b = ops[spec["a"]], ops[spec["b"]]
    op = spec["op"]
    built = {"neg": lambda: (-a, E.Negation(a)), "add": lambda: (a + b, E.Add(a, b)), "sub": lambda: (a - b, E.Minus(a, b)),
             "mul": lambda: (a * b, E.Multiply(a, b)), "div": lambda: (a / b, E.Divide(a, b)), "pow": lambda: (a ** b, E.Power(a, b))}[op]
    box = {}

    def run():
        box["r"], box["t"] = built()
        return type(box["r"]).__name__
    o = rt.outcome(run)
    outs = [o]
    if o["kind"] == "value":
        r, t = box["r"], box["t"]
        outs.append(rt.outcome(lambda: bool(r == t) and bool(t == r) and type(r) is type(t)))
        outs.append(rt.outcome(lambda: repr(r)))
        outs.append(rt.outcome(lambda: repr(t)))
    else:
        outs += [{"kind": "value", "value": None}] * 3
    return outs


@concrete.register("reject")
def exec_reject(spec, env):
    """C15/C16: non-expression operands are rejected with an exception (operators on either side, constructors at every position)"""
    sm, E = rt.ns()
    x, y = E.Variable("x"), E.Variable("y")
    f = foreign(spec["foreign"], sm, E)
    site = spec["site"]
    sites = {
        "x+f": lambda: x + f, "f+x": lambda: f + x, "x-f": lambda: x - f, "f-x": lambda: f - x, "x*f": lambda: x * f, "f*x": lambda: f * x,
        "x/f": lambda: x / f, "f/x": lambda: f / x, "f**x": lambda: f ** x,
        "Negation": lambda: E.Negation(f), "Reciprocal": lambda: E.Reciprocal(f), "Sine": lambda: E.Sine(f), "Cosine": lambda: E.Cosine(f),
        "NthPower": lambda: E.NthPower(f, 2), "NthRoot": lambda: E.NthRoot(f, 2), "Exponential": lambda: E.Exponential(f), "Logarithm": lambda: E.Logarithm(f),
        "Minus0": lambda: E.Minus(f, y), "Minus1": lambda: E.Minus(x, f), "Divide0": lambda: E.Divide(f, y), "Divide1": lambda: E.Divide(x, f),
        "Power0": lambda: E.Power(f, y), "Power1": lambda: E.Power(x, f), "Add0": lambda: E.Add(f), "Add1": lambda: E.Add(x, f), "Add2": lambda: E.Add(x, y, f),
        "Multiply0": lambda: E.Multiply(f, x), "Multiply1": lambda: E.Multiply(x, f, y), "Multiply2": lambda: E.Multiply(x, y, f),
    }
    for _ in range(spec.get("attempts", 1) - 1):
        rt.outcome(sites[site])
    return [rt.outcome(sites[site])]


@concrete.register("powexp")
def exec_powexp(spec, env):
    """x ** e for a concrete exponent spelled in the spec (ints, integral/non-integral floats, non-positive, foreign)"""
    sm, E = rt.ns()
    x = E.Variable("x")
    e = foreign(spec["exp"], sm, E) if isinstance(spec["exp"], str) else spec["exp"]
    box = {}

    def run():
        box["r"] = x ** e
        return type(box["r"]).__name__
    o = rt.outcome(run)
    outs = [o]
    if o["kind"] == "value" and type(box["r"]).__name__ == "NthPower":
        outs.append(rt.outcome(lambda: box["r"].n))
        outs.append({"kind": "value", "value": _is_int(box["r"].n)})
        outs.append(rt.outcome(lambda: bool(box["r"] == E.NthPower(x, int(e)))))
    else:
        outs += [{"kind": "value", "value": None}] * 3
    return outs


@concrete.register("names")
def exec_names(spec, env):
    """C14/C16: Variable(name) for an arbitrary string; every accepted name must work as a coordinate name on every entry point"""
    sm, E = rt.ns()
    name = env["name"]
    for _ in range(spec.get("attempts", 1) - 1):
        rt.outcome(lambda: E.Variable(name))            # earlier attempts with the very same name: the verdict must not depend on them
        rt.outcome(lambda: sm.Point(**{name: 1}))
    outs = [rt.outcome(lambda: bool(E.Variable(name).name == name))]
    if outs[0]["kind"] == "value":
        other = "other_"
        outs.append(rt.outcome(lambda: sm.Point(**{name: 3}).coordinate(name)))
        outs.append(rt.outcome(lambda: E.Variable(name).at(5)))
        outs.append(rt.outcome(lambda: sm.Derivative(E.NthPower(E.Variable(name), 2)).at(3)))
        outs.append(rt.outcome(lambda: sm.Partial(E.Multiply(E.Variable(name), E.Variable(other)), name).at(sm.Point(**{name: 2, other: 4}))))
        outs.append(rt.outcome(lambda: sm.LocatedDifferential(E.Multiply(E.Variable(name), E.Variable(other)), sm.Point(**{other: 4, name: 2})).component(E.Variable(name))))
    return outs


@concrete.register("barenumber")
def exec_barenumber(spec, env):
    """C14: a bare number in place of a point, and Derivative, are accepted exactly for expressions with <= 1 variable"""
    sm, E = rt.ns()
    e = rt.build(spec["d"], env, {})
    a = env["a"]
    if spec.get("embed"):
        # other expressions are built around e (and around its first child) first: that must not change what e accepts
        zz = E.Variable("zz")
        subs = [e] + [getattr(e, n) for n in ("_inner", "_left") if isinstance(getattr(e, n, None), sm.Expression)]
        for t in subs:
            rt.outcome(lambda: [E.Minus(t, zz), E.Divide(t, zz), E.Power(t, zz), t - zz, t / zz, t ** zz, E.Add(t, zz), E.Multiply(zz, t)] and 0)
    outs = [rt.outcome(lambda: e.at(a)), rt.outcome(lambda: sm.Derivative(e).at(a)),
            rt.outcome(lambda: sm.Derivative(e, compute_early=True) and 0)]
    box = {}
    o = rt.outcome(lambda: box.setdefault("n", e._normalize()) and 0)
    if o["kind"] == "value":
        outs.append(rt.outcome(lambda: box["n"].at(a)))
        outs.append(rt.outcome(lambda: sm.Derivative(box["n"]) and 0))
    else:
        outs += [o, o]
    return outs


# ------------------------------------------------------------------------------------------ equality and hashing (C12)

def build_obj(o, env):
    """object spec -> object.  ["expr", d] | ["Point", [[name, num], ...]] | ["Partial", d, var, early] | ["Derivative", d, early]
    | ["Differential", d, early] | ["LocatedDifferential", d, [[name, num], ...]] | ["foreign", name]"""
    sm, E = rt.ns()
    k = o[0]
    if k == "expr":
        return rt.build(o[1], env, {})
    if k == "Point":
        return sm.Point(**{n: rt.resolve(v, env) for n, v in o[1]})
    if k == "Partial":
        v = E.Variable(o[2][4:]) if o[2].startswith("obj:") else o[2]
        return sm.Partial(rt.build(o[1], env, {}), v, compute_early=bool(o[3]))
    if k == "Derivative":
        return sm.Derivative(rt.build(o[1], env, {}), compute_early=bool(o[2]))
    if k == "Differential":
        return sm.Differential(rt.build(o[1], env, {}), compute_early=bool(o[2]))
    if k == "LocatedDifferential":
        return sm.LocatedDifferential(rt.build(o[1], env, {}), sm.Point(**{n: rt.resolve(v, env) for n, v in o[2]}))
    if k == "foreign":
        return foreign(o[1], sm, E)
    if k == "diffcomp":
        v = E.Variable(o[2][4:]) if o[2].startswith("obj:") else o[2]
        return sm.Differential(rt.build(o[1], env, {}), compute_early=bool(o[3])).component(v)
    if k == "diffat":
        return sm.Differential(rt.build(o[1], env, {}), compute_early=bool(o[3])).at(sm.Point(**{n: rt.resolve(v, env) for n, v in o[2]}))
    if k == "aged":
        base = build_obj(o[1], env)
        age_object(base, o[2], sm, E)
        return derive_object(base, o[3] if len(o) > 3 else "self", sm, E)
    raise KeyError(k)


def first_child(e, sm):
    """the first operand of an expression node, found without assuming attribute names"""
    for v in vars(e).values():
        if isinstance(v, sm.Expression):
            return v
        if isinstance(v, (list, tuple)) and v and isinstance(v[0], sm.Expression):
            return v[0]
    return None


def age_object(o, ops, sm, E):
    """uses an object the way a caller would (results thrown away, exceptions swallowed): afterwards it must still be the same value object.
    ops: hash repr at at_missing fwd rev early diff_early deriv_early norm asexp parent_norm parent_early"""
    p = sm.Point(x=2, y=3, z=5)
    is_expr = isinstance(o, sm.Expression)
    for op in ops:
        if op == "hash":
            rt.outcome(lambda: _h(o))
        elif op == "repr":
            rt.outcome(lambda: (repr(o), str(o)))
        elif op == "at":
            rt.outcome(lambda: o.at(p))
        elif op == "at_missing":
            rt.outcome(lambda: o.at(sm.Point(t=1)))
        elif op == "asexp":
            if isinstance(o, sm.Differential):
                rt.outcome(lambda: [o.component(v).as_expression() for v in ("x", "y")])
            elif is_expr:
                rt.outcome(lambda: sm.Partial(o, "x").as_expression())
            else:
                rt.outcome(lambda: o.as_expression())
        elif not is_expr:
            continue
        elif op == "fwd":
            rt.outcome(lambda: sm.Partial(o, "x").at(p))
        elif op == "rev":
            rt.outcome(lambda: sm.LocatedDifferential(o, p))
        elif op == "early":
            rt.outcome(lambda: sm.Partial(o, "x", compute_early=True))
        elif op == "diff_early":
            rt.outcome(lambda: sm.Differential(o, compute_early=True))
        elif op == "deriv_early":
            rt.outcome(lambda: sm.Derivative(o, compute_early=True))
        elif op == "norm":
            rt.outcome(lambda: o._normalize())
        elif op == "parent_norm":
            # o is used as an operand of other expressions, which are then simplified (several times: flags may be set in place, late)
            for wrap in (lambda: E.Sine(o), lambda: E.Multiply(o, E.Variable("w")), lambda: E.Exponential(o)):
                def run():
                    w = wrap()
                    for _ in range(3):
                        w._normalize()
                rt.outcome(run)
        elif op == "parent_early":
            for wrap in (lambda: E.Exponential(o), lambda: E.Add(E.Cosine(o), E.Variable("w"))):
                def run():
                    w = wrap()
                    sm.Partial(w, "x", compute_early=True)
                    sm.Differential(w, compute_early=True)
                    sm.Partial(w, "y", compute_early=True)
                rt.outcome(run)
    return o


def derive_object(o, how, sm, E):
    if how == "self":
        return o
    if how == "norm":
        return o._normalize()
    if how == "asexp":
        return sm.Partial(o, "x").as_expression()
    if how == "inner":
        return first_child(o, sm)
    if how == "inner_of_norm":
        return first_child(o._normalize(), sm)
    raise KeyError(how)


def _h(x):
    # hash(x) must be a real int for the builtin; calling __hash__ directly also works under the symbolic engine (UF-valued hash)
    return type(x).__hash__(x)


@concrete.register("pair")
def exec_pair(spec, env):
    """outs: [a==b, b==a, a==a and b==b, a!=b, hash(a), hash(b), (b==c, a==c if a third object is given)], then comparisons with foreign objects"""
    sm, E = rt.ns()
    try:
        a, b = build_obj(spec["a"], env), build_obj(spec["b"], env)
    except sm.DomainError:
        return [{"kind": "skip", "msg": "a comparand cannot be built at the chosen point (LocatedDifferential outside the domain)"}]
    outs = [rt.outcome(lambda: bool(a == b)), rt.outcome(lambda: bool(b == a)), rt.outcome(lambda: bool(a == a) and bool(b == b)),
            rt.outcome(lambda: bool(a != b)), rt.outcome(lambda: _h(a)), rt.outcome(lambda: _h(b))]
    if spec.get("c"):
        c = build_obj(spec["c"], env)
        outs += [rt.outcome(lambda: bool(b == c)), rt.outcome(lambda: bool(a == c)), rt.outcome(lambda: _h(c))]
    else:
        outs += [{"kind": "value", "value": None}] * 3
    for f in spec.get("foreign", []):
        fo = foreign(f, sm, E)
        outs.append(rt.outcome(lambda: (bool(a == fo), bool(fo == a), bool(a != fo))[0]))
    if spec.get("containers"):
        # real set / dict membership (concrete replay and ground cases only)
        outs.append(rt.outcome(lambda: (b in {a}) == bool(a == b) and ({a: 1}.get(b) == 1) == bool(a == b)))
    return outs



@concrete.register("reprpair")
def exec_reprpair(spec, env):
    """C13: print a, then b, in the same process; evaluate the printed text back"""
    sm, E = rt.ns()
    try:
        a, b = build_obj(spec["a"], env), build_obj(spec["b"], env)
    except sm.DomainError:
        return [{"kind": "skip", "msg": "a comparand cannot be built at the chosen point (LocatedDifferential outside the domain)"}]
    outs = [rt.outcome(lambda: repr(a)), rt.outcome(lambda: repr(b)), rt.outcome(lambda: str(a)), rt.outcome(lambda: str(b)),
            rt.outcome(lambda: bool(a == b))]

    def roundtrip(o):
        c = clone(o, sm, E)
        return bool(c == o) and bool(o == c) and type(c) is type(o) and repr(c) == repr(o)
    outs.append(rt.outcome(lambda: roundtrip(a)))
    outs.append(rt.outcome(lambda: roundtrip(b)))
    outs.append(rt.outcome(lambda: repr(a)))
    return outs


# ------------------------------------------------------------------------------------------ iteration order (C18)

ORDER_HOOK = [lambda mode: None]     # the symbolic engine installs a hook that switches set iteration between canonical and solver-chosen


def _order_ops(sm, E, vs):
    def shown_list(xs):
        return Shown([x for x in xs])
    return {
        "eval": lambda e, p: e.at(p),
        "fwd": lambda e, p: [sm.Partial(e, v).at(p) for v in vs],
        "rev_all": lambda e, p: (lambda ld: [ld.component(v) for v in vs])(sm.LocatedDifferential(e, p)),
        "diff_at_all": lambda e, p: (lambda ld: [ld.component(v) for v in vs])(sm.Differential(e).at(p)),
        "diff_at_early_all": lambda e, p: (lambda ld: [ld.component(v) for v in vs])(sm.Differential(e, compute_early=True).at(p)),
        "diff_comp_at_early": lambda e, p: (lambda d: [d.component_at(v, p) for v in vs])(sm.Differential(e, compute_early=True)),
        "asexp_fwd": lambda e, p: shown_list([sm.Partial(e, v).as_expression() for v in vs]),
        "asexp_rev": lambda e, p: (lambda d: shown_list([d.component(v).as_expression() for v in vs]))(sm.Differential(e, compute_early=True)),
        "norm": lambda e, p: Shown(e._normalize()),
        "barenum": lambda e, p: [rt.outcome(lambda: e.at(2)).get("msg"), rt.outcome(lambda: sm.Derivative(e)).get("msg"),
                                 rt.outcome(lambda: sm.Derivative(e, compute_early=True)).get("msg")],
        "deriv": lambda e, p: [sm.Derivative(e).at(p), sm.Derivative(e, compute_early=True).at(p), sm.Partial(e, vs[0]).at(p)],
        # (a Point prints its coordinates in the order they were written - that is its constructor call, see C13 - so it is not printed here)
        "repr": lambda e, p: Shown([e, sm.Differential(e), sm.Partial(e, vs[0]), sm.Differential(e, compute_early=True)]),
    }


@concrete.register("order")
def exec_order(spec, env):
    """C18: the same operation with canonical set-iteration / coordinate order, then with a solver-chosen set-iteration order and a permuted
    coordinate order (under the plain interpreter both runs are simply the real thing; different hash seeds are compared by the replay)"""
    sm, E = rt.ns()
    vs = rt.variables_of(spec["d"])
    sup = spec.get("supplied", vs)
    op = None
    outs = []
    for mode, order in (("canonical", sup), ("free", [sup[i] for i in spec.get("perm", range(len(sup)))])):
        ORDER_HOOK[0](mode)
        try:
            e = rt.build(spec["d"], env, {})
            p = sm.Point(**{n: env[n] for n in order})
            op = _order_ops(sm, E, vs)[spec["op"]]
            if spec.get("pre_at"):
                # the SAME expression object was used before, at another point q (written in canonical order in both runs)
                q = sm.Point(**{n: env["q_" + n] for n in sup})
                rt.outcome(lambda: e.at(q))
                if spec["pre_at"] == "all":
                    rt.outcome(lambda: op(e, q))
            outs.append(rt.outcome(lambda: op(e, p)))
        finally:
            ORDER_HOOK[0]("canonical")
    return outs



# ------------------------------------------------------------------------------------------ termination of the rewriter (C11)

class _Capture:
    def __init__(self):
        import logging
        self.records = []
        self.h = logging.Handler()
        self.h.emit = lambda rec: self.records.append(rec.getMessage())
        self.lg = logging.getLogger()

    def __enter__(self):
        self.lg.addHandler(self.h)
        return self

    def __exit__(self, *a):
        self.lg.removeHandler(self.h)


def nodes(expr):
    return repr(expr).count("(")


@concrete.register("reduce")
def exec_reduce(spec, env):
    """C11: iterate the rewriter step by step.  outs: [stepping outcome = list of printed forms, flags..., warning texts of a full _normalize()]"""
    sm, E = rt.ns()
    e0 = rt.build(spec["d"], env, {})
    what = spec.get("input", "tree")
    box = {}

    def get_input():
        if what == "tree":
            return e0
        if what == "composed":
            # an expression handed out by an earlier simplification, used as an operand of a new expression
            n = e0._normalize()
            return {"Reciprocal": E.Reciprocal, "Negation": E.Negation, "Sine": E.Sine}[spec.get("wrap", "Reciprocal")](n)
        v = spec.get("var", "x")
        return e0._synthetic_partial(v)          # the unsimplified symbolic derivative (input of the simplifier inside as_expression())
    oi = rt.outcome(lambda: box.setdefault("e", get_input()) and 0)
    if oi["kind"] != "value":
        return [oi]
    e = box["e"]
    size = nodes(e)
    limit = spec.get("limit", 4 * size * size + 40)

    def walk():
        cur = e
        forms = [repr(cur)]
        steps = 0
        while not cur._is_fully_reduced and steps < limit:
            cur = cur._take_reduction_step()
            steps += 1
            forms.append(repr(cur))
        box["final"] = cur
        box["steps"] = steps
        return forms
    outs = [rt.outcome(walk)]
    if outs[0]["kind"] != "value":
        return outs
    final = box["final"]
    outs.append({"kind": "value", "value": [size, box["steps"], bool(final._is_fully_reduced)]})

    # the final form must be rule-free: a freshly built equal copy is reduced without any rewriting
    def fresh_copy_is_rule_free():
        c = clone(final, sm, E)
        seen = repr(c)
        k = 0
        while not c._is_fully_reduced and k < limit:
            c = c._take_reduction_step()
            k += 1
            if repr(c) != seen:
                return repr(c)
        return True
    outs.append(rt.outcome(fresh_copy_is_rule_free))
    # the library's own driver: no 'unable to fully reduce' warning on small inputs, and its result is a fixed point
    def full():
        with _Capture() as cap:
            n1 = clone(e, sm, E)._normalize() if spec.get("clone_input", True) else e._normalize()
            n2 = n1._normalize()
        return [list(cap.records), repr(n1), repr(n2)]
    outs.append(rt.outcome(full))

    # the same input OBJECT is reduced a second time (its nodes now carry flags from the first walk): it must terminate again, in the same form
    def second_walk():
        cur = e
        k = 0
        seen = [repr(cur)]
        while not cur._is_fully_reduced and k < limit:
            cur = cur._take_reduction_step()
            k += 1
            seen.append(repr(cur))
        return [k, bool(cur._is_fully_reduced), repr(cur) == repr(final), len(set(seen)) == len([s2 for i2, s2 in enumerate(seen) if i2 == 0 or s2 != seen[i2 - 1]])]
    outs.append(rt.outcome(second_walk))

    # the rules themselves, read from the running code (every node's own list of rewrite rules): none of them fires on any node of the final form
    def no_rule_fires():
        for node in all_nodes([final], sm):
            rules = getattr(node, "_reducers", None)
            if rules is None:
                continue
            for rule in list(rules):
                if rule() is not None:
                    return f"{getattr(rule, '__name__', 'a rule')} still fires on the {type(node).__name__} node {repr(node)[:120]}"
        return True
    outs.append(rt.outcome(no_rule_fires))
    return outs


@concrete.register("ldroutes")
def exec_ldroutes(spec, env):
    """C12: LocatedDifferential objects of the same expression and point obtained through different routes are equal (and hash alike)"""
    sm, E = rt.ns()
    z = rt.build(spec["d"], env, {})
    vs = rt.variables_of(spec["d"])
    mk = lambda: sm.Point(**{v: env[v] for v in vs})  # noqa: E731

    def run():
        a = sm.LocatedDifferential(z, mk())
        b = sm.Differential(z, compute_early=True).at(mk())
        c = sm.Differential(z).at(mk())
        if spec.get("roundtrip"):
            # C13: whichever way the object was obtained, its printed text evaluates to an equal object
            for o in (a, b, c):
                t = clone(o, sm, E)
                if not (bool(t == o) and bool(o == t) and repr(t) == repr(o)):
                    return False
            return True
        return bool(a == b) and bool(b == a) and bool(a == c) and bool(c == b) and bool(_h(a) == _h(b)) and bool(_h(b) == _h(c))
    return [rt.outcome(run)]


# ------------------------------------------------------------------------------------------ inductive cache lemma (C09)

def all_nodes(roots, sm):
    seen, out = set(), []

    def walk(e):
        if id(e) in seen or not isinstance(e, sm.Expression):
            return
        seen.add(id(e))
        out.append(e)
        for v in vars(e).values():
            if isinstance(v, sm.Expression):
                walk(v)
            elif isinstance(v, (list, tuple)):
                for x in v:
                    walk(x)
    for r in roots:
        walk(r)
    return out


def memo_fields(sm, E):
    """names of the per-node attributes that an evaluation / a derivative query writes (found by diffing __dict__, no names assumed)"""
    pool = POOLS["A"](E, {})
    nodes = all_nodes(list(pool.values()), sm)
    before = [dict(vars(n)) for n in nodes]
    p = sm.Point(x=2, y=3)
    for e in pool.values():
        rt.outcome(lambda: e.at(p))
        rt.outcome(lambda: sm.Partial(e, "x").at(p))
        rt.outcome(lambda: sm.LocatedDifferential(e, p))
    fields = set()

    def numeric(v):
        return v is None or (isinstance(v, (int, float)) and not isinstance(v, bool)) or type(v).__name__ in ("SymReal", "SymInt")
    for n, b in zip(nodes, before):
        for k, v in vars(n).items():
            if (k not in b or (b[k] is not v and b[k] != v)) and numeric(v) and numeric(b.get(k)):
                fields.add(k)        # a field that held nothing / a number before and holds a number now: a value memo
    return sorted(fields)


@concrete.register("anycache")
def exec_anycache(spec, env):
    """the memo fields of EVERY node of the pool are overwritten with arbitrary content (None or an arbitrary number, chosen by the solver /
    given by the replay inputs) before the operation: the induction step that covers histories of any length"""
    sm, E = rt.ns()
    pts = _points(spec, env, sm)
    fields = memo_fields(sm, E)
    objs = POOLS[spec["pool"]](E, env)
    nodes = all_nodes([objs[k] for k in sorted(objs)], sm)
    # which memo fields hold (arbitrary) content: one of four patterns chosen by the solver - all, every other, only the first, only the last -
    # (a fork per field would give 2^k identical evaluations); the CONTENT of every field is an independent symbolic number
    slots = [(n, f) for n in nodes for f in fields if f in vars(n)]
    pat = env.get("pattern", 0)
    which = None
    for cand in (0, 1, 2, 3):
        if bool(pat == cand):
            which = cand
            break
    for k, (n, f) in enumerate(slots):
        chosen = {0: True, 1: k % 2 == 0, 2: k == 0, 3: k == len(slots) - 1, None: False}[which]
        if chosen and f"m{k}" in env:
            setattr(n, f, env[f"m{k}"])
    out = run_op(spec["op"], objs, pts, sm, E)
    fobjs = POOLS[spec["pool"]](E, env)
    fresh = run_op(spec["op"], fobjs, pts, sm, E)
    outs = [out, fresh]
    a, b = out, fresh
    if a["kind"] == b["kind"] == "value" and isinstance(a["value"], Shown) and isinstance(b["value"], Shown):
        x, y = a["value"].x, b["value"].x
        outs.append(rt.outcome(lambda: bool(x == y) and bool(y == x)))
    else:
        outs.append({"kind": "value", "value": None})
    outs.append({"kind": "value", "value": fields})
    return outs
