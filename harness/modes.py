"""Additional execution modes (beyond 'route'), registered into harness.concrete.MODES.

Stdlib + smoothmath only (imported by the un-instrumented replay runner as well).
"""
from harness import concrete
from harness import routes as rt


def _steps_bound(k):
    import smoothmath._private.base_expression.expression as be
    old = getattr(be, "REDUCTION_STEPS_BOUND", None)
    if old is not None and k is not None:
        be.REDUCTION_STEPS_BOUND = k
    return be, old


@concrete.register("simplify")
def exec_simplify(spec, env):
    """C08/C11: simplify spec['d'] and evaluate input, (intermediate,) and final forms at the same point.
    what = pass: e.at(p), e._normalize(), normalized.at(p)
           steps: additionally every intermediate form of e._take_reduction_step() iteration
           giveup: as pass but with REDUCTION_STEPS_BOUND forced to spec['bound'] (the rewriter gives up early)"""
    import logging
    sm, E = rt.ns()
    e = rt.build(spec["d"], env, {})
    vs = rt.variables_of(spec["d"])
    p = rt.make_point(concrete.coords(spec.get("supplied", vs), env))
    what = spec.get("what", "pass")
    outs = [rt.outcome(lambda: e.at(p))]
    forms = []
    logging.disable(logging.CRITICAL)
    be, old = _steps_bound(spec.get("bound") if what == "giveup" else None)
    try:
        if what == "steps":
            def walk():
                cur = e
                for _ in range(spec.get("max_steps", 400)):
                    if cur._is_fully_reduced:
                        break
                    cur = cur._take_reduction_step()
                    forms.append(cur)
                forms.append(cur._normalize_fully_reduced())
                return len(forms)
            outs.append(rt.outcome(walk))
        else:
            def norm():
                forms.append(e._normalize())
                return 1
            outs.append(rt.outcome(norm))
    finally:
        if old is not None:
            be.REDUCTION_STEPS_BOUND = old
        logging.disable(logging.NOTSET)
    if spec.get("again"):
        # simplifying a second time (flags are set now) must give the same meaning
        outs.append(rt.outcome(lambda: forms.append(e._normalize()) or 1))
    for f in forms:
        outs.append(rt.outcome(lambda: f.at(p)))
    return outs
