"""Additional execution modes (beyond 'route'), registered into harness.concrete.MODES.

Stdlib + smoothmath only (imported by the un-instrumented replay runner as well).
"""
from harness import concrete
from harness import routes as rt
