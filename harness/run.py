"""Generic job runner: explore one job symbolically, discharge its verification conditions, replay sat
models on the real code, aggregate evidence.  (DESIGN.md section 5)

A property module (props/cNN.py) provides
    PROP            the property id
    jobs(tier, seed) -> list of job specs (JSON-able dicts; spec["mode"] selects harness.concrete mode)
    vcs(spec, ctx, outs) -> list of VC      (called once per explored path)
and optionally  LEVEL_TEXT, RULE, ASSUMPTIONS, attribute(spec, vc, inputs, reproduce) for known findings.
"""
import fractions
import hashlib
import importlib
import json
import multiprocessing as mp
import os
import subprocess
import sys
import time
import traceback
import zlib

VERIF = os.path.dirname(os.path.dirname(os.path.abspath(__file__)))
REPO_SRC = os.environ.get("SMOOTHMATH_SRC", "/repo/src")
REPLAY_PY = os.environ.get("REPLAY_PYTHON", "/venv/bin/python")
EVIDENCE_DIR = os.environ.get("VERIF_EVIDENCE_DIR") or os.path.join(VERIF, "evidence")     # redirected only by the seeded-change matrix
REPLAY_DIR = os.environ.get("VERIF_REPLAY_DIR") or os.path.join(VERIF, "replays")
EXIT_HARNESS = 3


class VC:
    """one verification condition on one path.  query: z3 formula whose satisfiability (together with the
    path condition and the axioms) is a counterexample.  judge(val, concrete_outs) -> reason-string if the
    concrete run reproduces the violation, else None.  val: input name -> mpmath number."""

    def __init__(self, name, query, judge, info=None):
        self.name, self.query, self.judge, self.info = name, query, judge, info or {}


class Ctx:
    pass


# ------------------------------------------------------------------------------------------ worker side

_W = {"ready": False}


def worker_init():
    if _W["ready"]:
        return
    if REPO_SRC not in sys.path:
        sys.path.insert(0, REPO_SRC)
    if VERIF not in sys.path:
        sys.path.insert(0, VERIF)
    for m in [m for m in sys.modules if m == "smoothmath" or m.startswith("smoothmath.")]:
        del sys.modules[m]
    import smoothmath
    assert os.path.abspath(smoothmath.__file__).startswith(os.path.abspath(REPO_SRC)), smoothmath.__file__
    from symreal import core as sx
    sx.inject()
    import harness.modes  # noqa: F401
    _W["ready"] = True
    _W["funcs"] = set()


def _profile(frame, event, arg):
    if event == "call":
        co = frame.f_code
        fn = co.co_filename
        if "/smoothmath/" in fn:
            _W["funcs"].add(fn.split("/smoothmath/", 1)[1].replace("_private/", "") + ":" + co.co_qualname
                            if hasattr(co, "co_qualname") else fn.split("/smoothmath/", 1)[1] + ":" + co.co_name)


def model_inputs(model, consts):
    """z3 model -> {name: Fraction} for the input constants"""
    import z3
    out = {}
    for name, c in consts.items():
        v = model.eval(c, model_completion=True)
        if z3.is_int_value(v):
            out[name] = fractions.Fraction(v.as_long())
        elif z3.is_rational_value(v):
            out[name] = fractions.Fraction(v.numerator_as_long(), v.denominator_as_long())
        elif z3.is_algebraic_value(v):
            a = v.approx(30)
            out[name] = fractions.Fraction(a.numerator_as_long(), a.denominator_as_long())
        elif z3.is_true(v) or z3.is_false(v):
            out[name] = fractions.Fraction(int(z3.is_true(v)))
        elif z3.is_string_value(v):
            out[name] = _z3_string(v)
        else:
            raise ValueError(f"model value of {name}: {v}")
    return out


def _z3_string(v):
    s = v.as_string()
    import re as _re
    return _re.sub(r"\\u\{([0-9a-fA-F]+)\}", lambda m: chr(int(m.group(1), 16)), s)


def concretise(fr_inputs, int_names=()):
    """Fractions -> the concrete Python numbers handed to the real code (float, or int for integer inputs)"""
    enc, val = {}, {}
    import mpmath
    for k, fr in fr_inputs.items():
        if isinstance(fr, str):
            enc[k] = ["str", fr]
            val[k] = fr
        elif k in int_names:
            enc[k] = ["int", int(fr)]
            val[k] = mpmath.mpf(int(fr))
        else:
            f = float(fr)
            enc[k] = ["hex", f.hex()]
            val[k] = mpmath.mpf(f)
    return enc, val


def run_concrete(spec, enc_inputs, neutralise=None, hashseed=None):
    req = {"spec": spec, "inputs": enc_inputs, "neutralise": neutralise or []}
    env = dict(os.environ)
    env["SMOOTHMATH_SRC"] = REPO_SRC
    env.pop("PYTHONPATH", None)
    env["PYTHONHASHSEED"] = str(hashseed) if hashseed is not None else env.get("PYTHONHASHSEED", "0")
    p = subprocess.run([REPLAY_PY, os.path.join(VERIF, "harness", "replay_runner.py")], input=json.dumps(req),
                       capture_output=True, text=True, timeout=120, env=env)
    if p.returncode != 0:
        raise RuntimeError("replay runner failed: " + p.stderr[-2000:])
    return json.loads(p.stdout)["outs"]


def decode_out(o):
    """runner outcome -> outcome with an mpmath value"""
    import mpmath
    r = dict(o)
    if o.get("vtype") == "float":
        try:
            r["mp"] = mpmath.mpf(float.fromhex(o["value"]))
        except ValueError:
            r["mp"] = None
            r["kind"] = "nonfinite"
    elif o.get("vtype") == "numlist":
        try:
            r["mp_list"] = [mpmath.mpf(float.fromhex(x)) for x in o["value"]]
        except ValueError:
            r["mp_list"] = None
            r["kind"] = "nonfinite"
    elif o.get("vtype") in ("int", "bool"):
        r["mp"] = mpmath.mpf(int(o["value"]))
    return r


def replay_gate(eng, vc, spec, consts, int_names, base_query, max_models=6, neutralisers=()):
    """sat model -> concrete run on the real code -> judge.  Returns (status, record)."""
    import z3
    tried = []
    extra = []
    s_model = eng.last.model()
    # candidate assignments supplied by the obligation (e.g. CPython's real numeric-hash collisions), if consistent with the path
    real_names = [n for n, c in consts.items() if z3.is_real(c)]
    for cand in vc.info.get("candidates", []):
        if len(real_names) < len(cand):
            continue
        # tried directly on the real code (the judge decides; consistency with this path's condition is not required for a real witness)
        try:
            fr = model_inputs(s_model, consts)
            for n, v in zip(real_names, cand):
                fr[n] = fractions.Fraction(v)
            enc, val = concretise(fr, set(int_names) | {n for n, v in zip(real_names, cand) if isinstance(v, int)})
            outs = [decode_out(o) for o in run_concrete(spec, enc)]
            vc.enc = enc
            why = vc.judge(val, outs)
            if why:
                attributed = None
                for fid in neutralisers:
                    try:
                        outs2 = [decode_out(o) for o in run_concrete(spec, enc, neutralise=[fid])]
                        if not vc.judge(val, outs2):
                            attributed = fid
                            break
                    except Exception:  # noqa
                        pass
                return "violation", {"attributed": attributed, "inputs": enc, "inputs_rational": {k: str(v) for k, v in fr.items()},
                                     "observed": [{k: v for k, v in o.items() if k != "mp"} for o in outs], "why": why, "attempts": 0,
                                     "found_by": "candidate assignment supplied by the obligation"}
        except Exception:  # noqa
            pass
    for attempt in range(max_models):
        try:
            fr = model_inputs(s_model, consts)
        except Exception as e:  # noqa
            return "unreproduced", {"why": f"model extraction: {e}"}
        try:
            enc, val = concretise(fr, int_names)
        except (OverflowError, ValueError):
            enc, val = None, None
        try:
            if enc is None:
                raise ValueError("model value outside the double range")
            outs = [decode_out(o) for o in run_concrete(spec, enc)]
            vc.enc = enc
            why = vc.judge(val, outs)
        except Exception as e:  # noqa
            why = None
            tried.append({"inputs": {k: str(v) for k, v in fr.items()}, "error": f"{type(e).__name__}: {e}"[:300]})
        else:
            if why:
                attributed = None
                for fid in neutralisers:      # counterfactual attribution to a known finding
                    try:
                        outs2 = [decode_out(o) for o in run_concrete(spec, enc, neutralise=[fid])]
                        if not vc.judge(val, outs2):
                            attributed = fid
                            break
                    except Exception:  # noqa
                        pass
                return "violation", {"attributed": attributed, "inputs": enc, "inputs_rational": {k: str(v) for k, v in fr.items()},
                                     "observed": [{k: v for k, v in o.items() if k != "mp"} for o in outs],
                                     "why": why, "attempts": attempt + 1}
            tried.append({"inputs": {k: str(v) for k, v in fr.items()}, "observed": [o.get("kind") for o in outs]})
        # ask for another model: first generic-position constraints, then blocking
        block = z3.Or([c != s_model.eval(c, model_completion=True) for c in consts.values()]) if consts else z3.BoolVal(False)
        extra.append(block)
        nice = []
        if attempt == 0:
            for c in consts.values():
                if z3.is_real(c):
                    nice += [c >= -8, c <= 8, z3.IsInt(c * 4)]
        elif attempt == 1:
            for c in consts.values():         # exactly representable doubles of moderate size
                if z3.is_real(c):
                    nice += [c >= -2 ** 20, c <= 2 ** 20, z3.IsInt(c * 2 ** 30)]
        r = eng.check(base_query, *extra, *nice, timeout=min(eng.timeout, 5000))
        if r != "sat" and nice:
            r = eng.check(base_query, *extra, timeout=min(eng.timeout, 5000))
        if r != "sat":
            break
        s_model = eng.last.model()
    return "unreproduced", {"tried": tried[:4]}


CAND_GRID = [fractions.Fraction(x) for x in (-3, -2, -1, 0, 1, 2, 3, 4, 7, 16, 256)] + [fractions.Fraction(1, 2), fractions.Fraction(-1, 2),
                                                                                       fractions.Fraction(3, 2), fractions.Fraction(1, 4)]


def numeric_candidate(eng, vc, consts, int_names, tries=80):
    """a point of a small rational grid at which path condition and query hold numerically (50-digit evaluation of the z3 terms)"""
    import random
    import mpmath
    import z3
    import oracle as orc
    if not consts or any(not (z3.is_real(c) or z3.is_int(c)) for c in consts.values()):
        return None
    rng = random.Random(1234)
    names = list(consts)
    formula = z3.And(list(eng.pc) + [vc.query])
    for _ in range(tries):
        pt = {n: (rng.choice(CAND_GRID) if n not in int_names else fractions.Fraction(rng.randint(-2, 9))) for n in names}
        val = {n: mpmath.mpf(v.numerator) / mpmath.mpf(v.denominator) for n, v in pt.items()}
        try:
            if orc.mp_bool(formula, val):
                return pt
        except Exception:  # noqa
            continue
    return None


def run_job(args):
    prop_name, spec, opts = args
    t0 = time.time()
    res = {"job": spec.get("id", "?"), "spec": spec, "paths": 0, "unsupported": 0, "aborted": 0, "truncated": False,
           "vcs": 0, "unsat": 0, "unknown": 0, "sat_replayed": 0, "sat_unreproduced": 0, "violations": [],
           "known": [], "queries": 0, "solver_s": 0.0, "funcs": [], "error": None, "unsupported_why": [],
           "vc_names": {}, "twin_refuted": False, "unknown_forks": 0, "numeric_vcs": 0}
    try:
        worker_init()
        from symreal import core as sx
        import z3
        from harness import concrete
        prop = importlib.import_module("props." + prop_name.lower())
        neutralisers = tuple(getattr(prop, "NEUTRALISE", ()))

        def path(eng):
            ctx = Ctx()
            ctx.eng = eng
            ctx.spec = spec
            ctx.opts = opts
            prop.prepare(spec, ctx)          # builds ctx.env (name -> proxy), ctx.consts (name -> z3 const), ctx.int_names
            for c in getattr(ctx, "assume", []):
                eng.add(c)
            outs = concrete.execute(spec, ctx.env)
            ctx.outs = outs
            recs = []
            for vc in prop.vcs(spec, ctx, outs):
                if vc.query is None and getattr(vc, "solve", None) is None:          # decided numerically / structurally by the harness (ground case)
                    recs.append((vc, "violation-concrete" if vc.info.get("failed") else "unsat", None))
                    continue
                if getattr(vc, "solve", None) is not None:
                    # an obligation with its own decision procedure (e.g. the QF_FP exactness query): returns a verdict and, for sat, inputs
                    t_s = time.time()
                    r, given = vc.solve()
                    eng.nq += 1
                    eng.tq += time.time() - t_s
                    rec = None
                    if r == "sat":
                        import mpmath as _mp
                        enc = {k: ["hex", float(v).hex()] for k, v in given.items()}
                        val = {k: _mp.mpf(float(v)) for k, v in given.items()}
                        try:
                            couts = [decode_out(o) for o in run_concrete(spec, enc)]
                            why = vc.judge(val, couts)
                        except Exception as e:  # noqa
                            why = None
                        if why:
                            r, rec = "violation", {"attributed": None, "inputs": enc, "inputs_rational": {k: repr(float(v)) for k, v in given.items()},
                                                   "observed": [{k: v for k, v in o.items() if k != "mp"} for o in couts], "why": why}
                        else:
                            r, rec = "unreproduced", {"tried": [{"inputs": {k: repr(float(v)) for k, v in given.items()}}]}
                    recs.append((vc, r, rec))
                    continue
                r = eng.check(vc.query)
                rec = None
                if r in ("sat", "unsat") and opts.get("cvc5_sample") and not vc.info.get("concrete_only") and not z3.is_true(vc.query) \
                        and zlib.crc32(f"{spec.get('id')}|{vc.name}|{len(recs)}".encode()) % opts["cvc5_sample"] == 0:
                    from symreal import crosscheck
                    r2, dt = crosscheck.cvc5_decide(eng.last, opts.get("cvc5_timeout_ms", 5000))
                    cx = res.setdefault("cvc5", {"checked": 0, "agree": 0, "unknown": 0, "disagree": 0, "time_s": 0.0, "examples": []})
                    cx["checked"] += 1
                    cx["time_s"] += dt
                    if r2 == r:
                        cx["agree"] += 1
                    elif r2 in ("sat", "unsat"):
                        cx["disagree"] += 1
                        cx["examples"].append({"vc": vc.name, "z3": r, "cvc5": r2})
                    else:
                        cx["unknown"] += 1
                if r == "unknown" and vc.judge is not None and not vc.info.get("concrete_only"):
                    # the solver gave up: look for a numeric candidate that satisfies path condition and negated property at 50 digits and
                    # hand it to the replay gate.  This can only turn an inconclusive obligation into a REPLAYED violation, never into a success.
                    hit = numeric_candidate(eng, vc, ctx.consts, ctx.int_names)
                    if hit is not None:
                        enc, val = concretise(hit, ctx.int_names)
                        try:
                            couts = [decode_out(o) for o in run_concrete(spec, enc)]
                            vc.enc = enc
                            why = vc.judge(val, couts)
                        except Exception:  # noqa
                            why = None
                        if why:
                            r = "violation"
                            rec = {"attributed": None, "inputs": enc, "inputs_rational": {k: str(v) for k, v in hit.items()},
                                   "observed": [{k: v for k, v in o.items() if k != "mp"} for o in couts], "why": why, "found_by": "numeric candidate after solver unknown"}
                            for fid in neutralisers:
                                try:
                                    outs2 = [decode_out(o) for o in run_concrete(spec, enc, neutralise=[fid])]
                                    if not vc.judge(val, outs2):
                                        rec["attributed"] = fid
                                        break
                                except Exception:  # noqa
                                    pass
                if r == "sat" and vc.info.get("concrete_only"):
                    # a supplementary obligation that only the un-instrumented interpreter can decide (e.g. real set/dict
                    # membership): run it once at a model of the path condition; counted under decided_without_final_query
                    status, rec = replay_gate(eng, vc, spec, ctx.consts, ctx.int_names, vc.query, max_models=1, neutralisers=neutralisers)
                    recs.append((vc, "violation" if status == "violation" else "concrete-ok", rec))
                    continue
                if r == "sat":
                    status, rec = replay_gate(eng, vc, spec, ctx.consts, ctx.int_names, vc.query, neutralisers=neutralisers)
                    r = status
                recs.append((vc, r, rec))
            # attribution of a structural finding that is only acceptable when a companion obligation was discharged on this path
            for (vc, r, rec) in recs:
                a = vc.info.get("attribute")
                if a and r == "violation" and rec is not None:
                    comp = [r2 for (vc2, r2, _) in recs if vc2.name in a["requires_unsat"]]
                    # the companion obligation (same meaning) was discharged - or, where the solver gave up on it, neither its models nor the numeric
                    # candidate points produced a real run on which the two results differ (it is then counted as inconclusive on its own); a companion
                    # that IS violated is reported as such and leaves this one unattributed
                    ok = all(r2 in ("unsat", "unknown", "unreproduced") for r2 in comp)
                    if ok and comp:
                        rec["attributed"] = a["finding"]
                        if any(r2 != "unsat" for r2 in comp):
                            rec["companion_inconclusive"] = True
            return recs

        def explore_and_tally(into):
            sys.setprofile(_profile)
            try:
                eng, paths = sx.explore(path, max_paths=opts.get("max_paths", 2000), timeout_ms=opts.get("timeout_ms", 10000),
                                        budget_s=opts.get("job_budget_s"))
            finally:
                sys.setprofile(None)
            into["truncated"] = eng.truncated
            into["queries"] = eng.nq
            into["solver_s"] = round(eng.tq, 3)
            into["unknown_forks"] = eng.n_unknown_forks
            into["budget_skipped"] = eng.n_budget_skipped
            for p in paths:
                into["paths"] += 1
                if p.status == "unsupported":
                    into["unsupported"] += 1
                    if len(into["unsupported_why"]) < 3:
                        into["unsupported_why"].append(p.value)
                    continue
                if p.status == "abort":
                    into["aborted"] += 1
                    continue
                for (vc, r, rec) in p.value:
                    into["vcs"] += 1
                    into["vc_names"][vc.name] = into["vc_names"].get(vc.name, 0) + 1
                    if vc.query is None:
                        into["numeric_vcs"] += 1
                    if r == "concrete-ok":
                        into["unsat"] += 1
                        into["numeric_vcs"] += 1
                    elif r == "unsat":
                        into["unsat"] += 1
                    elif r == "unknown":
                        into["unknown"] += 1
                    elif r == "unreproduced":
                        into["sat_unreproduced"] += 1
                        into.setdefault("unreproduced_samples", [])
                        if len(into["unreproduced_samples"]) < 2:
                            into["unreproduced_samples"].append({"vc": vc.name, **(rec or {})})
                    elif r in ("violation", "violation-concrete"):
                        into["sat_replayed"] += 1
                        into["violations"].append({"vc": vc.name, "info": vc.info, **(rec or {})})

        explore_and_tally(res)
        hit = sorted({v.get("attributed") for v in res["violations"] if v.get("attributed") in neutralisers})
        if hit:
            # the tree touches a known finding: re-explore with exactly that cause neutralised, so that the rest of the
            # input space of this tree stays verified and any OTHER violation is still reported (DESIGN.md section 5)
            from harness import neutralise as nz
            restore = nz.install(hit)
            resid = {k: ([] if isinstance(v, list) else ({} if isinstance(v, dict) else 0)) for k, v in res.items()
                     if k in ("paths", "unsupported", "aborted", "vcs", "unsat", "unknown", "sat_replayed", "sat_unreproduced",
                              "violations", "unsupported_why", "vc_names", "numeric_vcs")}
            try:
                explore_and_tally(resid)
            finally:
                restore()
            res["counterfactual"] = {"neutralised": hit, "paths": resid["paths"], "vcs": resid["vcs"], "unsat": resid["unsat"],
                                     "unknown": resid["unknown"], "unreproduced": resid["sat_unreproduced"],
                                     "violations_on_real_code": len([v for v in resid["violations"] if not v.get("attributed")])}
            for v in resid["violations"]:
                if not v.get("attributed"):
                    v["found_in_counterfactual_exploration"] = True
                    res["violations"].append(v)
        res["funcs"] = sorted(_W["funcs"])
        _W["funcs"] = set()
    except BaseException as e:  # noqa
        res["error"] = f"{type(e).__name__}: {e}\n" + traceback.format_exc()[-1500:]
    res["wall_s"] = round(time.time() - t0, 3)
    return res


# ------------------------------------------------------------------------------------------ main side

def load_known():
    p = os.path.join(VERIF, "known_findings.json")
    if os.path.exists(p):
        return json.load(open(p))
    return {"findings": []}


def write_replay(prop, job, v):
    os.makedirs(REPLAY_DIR, exist_ok=True)
    body = {"property": prop, "spec": job["spec"], "vc": v["vc"], "inputs": v.get("inputs"),
            "inputs_rational": v.get("inputs_rational"), "observed": v.get("observed"), "why": v.get("why"),
            "info": v.get("info"),
            "how_to_replay": f"cd /verif && ./check {prop} --replay <this file>"}
    h = hashlib.sha1(json.dumps([body["spec"], body["vc"], body["inputs"]], sort_keys=True, default=str).encode()).hexdigest()[:12]
    path = os.path.join(REPLAY_DIR, f"{prop}-{h}.json")
    json.dump(body, open(path, "w"), indent=1, default=str)
    return path


def main(prop_name, tier, seed, budget_s=None, procs=None, only=None):
    t0 = time.time()
    sys.path.insert(0, VERIF)
    sys.path.insert(0, REPO_SRC)
    prop = importlib.import_module("props." + prop_name.lower())
    PROP = prop.PROP
    import glob
    for f in glob.glob(os.path.join(REPLAY_DIR, f"{PROP}-*.json")):
        os.remove(f)
    # encoding validated against the implementation: the repository's own tests under the engine in ground mode (in parallel)
    gt = None
    if not os.environ.get("VERIF_SKIP_GROUND_TESTS"):
        env = dict(os.environ)
        env["SMOOTHMATH_SRC"] = REPO_SRC
        env["SMOOTHMATH_REPO"] = os.path.dirname(REPO_SRC.rstrip("/"))
        gt = subprocess.Popen([sys.executable, os.path.join(VERIF, "selftest", "ground_tests.py")], stdout=subprocess.PIPE, stderr=subprocess.STDOUT,
                              text=True, env=env)
    jobs = prop.jobs(tier, seed)
    if only:
        jobs = [j for j in jobs if only in j.get("id", "")]
    jobs = [j for j in jobs if j.get("twin")] + [j for j in jobs if not j.get("twin")]      # vacuity guards first (a time budget must not skip them)
    opts = dict(getattr(prop, "OPTS", {}).get(tier, {}))
    opts.setdefault("timeout_ms", 10000 if tier == "quick" else 30000)
    opts.setdefault("max_paths", 2000)
    opts.setdefault("job_budget_s", 40 if tier == "quick" else 300)
    opts.setdefault("cvc5_sample", 20)        # every 20th final verification condition is re-decided by cvc5
    budget_s = budget_s or opts.get("budget_s") or (300 if tier == "quick" else 2400)
    procs = procs or int(os.environ.get("VERIF_PROCS", "16"))
    hard_s = opts.get("job_hard_s") or (opts["job_budget_s"] * 2 + 30)
    if os.environ.get("VERIF_POOL") == "mp":
        results, skipped = [], 0
        with mp.get_context("fork").Pool(procs, maxtasksperchild=40) as pool:
            for r in pool.imap_unordered(run_job, [(prop_name, j, opts) for j in jobs], chunksize=1):
                results.append(r)
    else:
        results, skipped = run_pool(prop_name, jobs, opts, procs, hard_s, t0 + budget_s)
    # a reachability twin that was not refuted (e.g. a solver timeout under load) gets one more, unhurried attempt before it counts
    for k, r in enumerate(results):
        if r["spec"].get("twin") and not r.get("violations") and not r.get("error"):
            o2 = dict(opts)
            o2["timeout_ms"] = opts["timeout_ms"] * 4
            o2["job_budget_s"] = opts["job_budget_s"] * 4
            results[k] = run_job((prop_name, r["spec"], o2))
    ground = {"ran": False}
    if gt is not None:
        try:
            out, _ = gt.communicate(timeout=300)
            import re as _re
            m = _re.search(r"GROUND-TESTS passed=(\d+) forks_decided_by_solver=(\d+)", out or "")
            ground = {"ran": True, "exit": gt.returncode, "passed": int(m.group(1)) if m else 0,
                      "solver_decided_forks": int(m.group(2)) if m else 0, "tail": (out or "")[-300:] if gt.returncode else ""}
        except Exception as e:  # noqa
            gt.kill()
            ground = {"ran": True, "exit": -1, "passed": 0, "tail": str(e)}
    opts["_ground"] = ground
    return finish(prop, PROP, tier, seed, jobs, results, skipped, t0, opts)


def _child(conn, prop_name, opts):
    """persistent worker: receives one job at a time, sends its result back; None = stop"""
    try:
        while True:
            job = conn.recv()
            if job is None:
                break
            try:
                r = run_job((prop_name, job, opts))
            except BaseException as e:  # noqa
                r = {"job": job.get("id"), "spec": job, "error": f"child: {type(e).__name__}: {e}"}
            conn.send(r)
    except (EOFError, OSError):
        pass
    finally:
        os._exit(0)


def _killed_result(job, why):
    return {"job": job.get("id", "?"), "spec": job, "paths": 0, "unsupported": 0, "aborted": 0, "truncated": True, "vcs": 0, "unsat": 0,
            "unknown": 0, "sat_replayed": 0, "sat_unreproduced": 0, "violations": [], "known": [], "queries": 0, "solver_s": 0.0,
            "funcs": [], "error": None, "unsupported_why": [], "vc_names": {}, "unknown_forks": 0, "numeric_vcs": 0,
            "budget_skipped": 0, "killed": why, "wall_s": 0.0}


def run_pool(prop_name, jobs, opts, procs, hard_s, deadline, recycle=40):
    """persistent forked workers (the parent is initialised once, children inherit it), one job at a time each; a worker that
    does not answer within hard_s seconds is killed and replaced, and its job is reported as inconclusive (z3 does not always
    honour its own timeout inside nonlinear arithmetic)."""
    from multiprocessing.connection import wait
    worker_init()
    importlib.import_module("props." + prop_name.lower())
    ctx = mp.get_context("fork")
    pending = list(reversed(jobs))
    results = []
    skipped = 0
    workers = {}      # conn -> [proc, current job or None, start time, jobs done]

    def spawn():
        a, b = ctx.Pipe(duplex=True)
        p = ctx.Process(target=_child, args=(b, prop_name, opts), daemon=True)
        p.start()
        b.close()
        workers[a] = [p, None, 0.0, 0]
        return a

    def give(c):
        w = workers[c]
        if not pending:
            return False
        if w[3] >= recycle:          # recycle the worker (z3 AST memory)
            retire(c)
            c = spawn()
            w = workers[c]
        w[1] = pending.pop()
        w[2] = time.time()
        c.send(w[1])
        return True

    def retire(c, kill=False):
        p = workers.pop(c)[0]
        try:
            if kill:
                p.kill()
            else:
                c.send(None)
        except Exception:  # noqa
            pass
        c.close()
        p.join(5)

    for _ in range(min(procs, len(pending))):
        give(spawn())
    while any(w[1] is not None for w in workers.values()):
        busy = [c for c, w in workers.items() if w[1] is not None]
        for c in wait(busy, timeout=1.0):
            w = workers[c]
            try:
                r = c.recv()
            except (EOFError, OSError):
                r = _killed_result(w[1], "worker died without a result")
                r["error"] = "worker process died without a result"
                results.append(r)
                retire(c, kill=True)
                if pending:
                    give(spawn())
                continue
            results.append(r)
            w[1] = None
            w[3] += 1
            if time.time() > deadline and pending:
                skipped += len(pending)
                pending.clear()
            give(c)
        now = time.time()
        for c in list(workers.keys()):
            w = workers[c]
            if w[1] is not None and now - w[2] > hard_s:
                results.append(_killed_result(w[1], f"killed after {int(now - w[2])} s (solver did not return within its timeout)"))
                retire(c, kill=True)
                if now > deadline and pending:
                    skipped += len(pending)
                    pending.clear()
                if pending:
                    give(spawn())
    for c in list(workers.keys()):
        retire(c)
    return results, skipped


def finish(prop, PROP, tier, seed, jobs, results, skipped, t0, opts):
    known = load_known()
    if os.environ.get("VERIF_SLOWEST"):
        for r in sorted(results, key=lambda r: -r.get("wall_s", 0))[:int(os.environ["VERIF_SLOWEST"])]:
            print(f"  slow: {r.get('wall_s')}s paths={r.get('paths')} queries={r.get('queries')} {json.dumps({k: v for k, v in r['spec'].items() if k != 'id'})[:300]}")
    errors = [r for r in results if r["error"]]
    viol_lines, known_lines = [], []
    twins_expected = sum(1 for j in jobs if j.get("twin"))
    twins_run = twins_refuted = 0
    tot = {k: 0 for k in ("paths", "unsupported", "aborted", "vcs", "unsat", "unknown", "sat_replayed", "sat_unreproduced",
                          "queries", "unknown_forks", "numeric_vcs", "budget_skipped")}
    solver_s = 0.0
    funcs = set()
    nontrivial = set()
    samples = []
    truncated = 0
    killed = 0
    vc_names = {}
    known_hit = {}
    n_viol = 0
    cvc = {"checked": 0, "agree": 0, "unknown": 0, "disagree": 0, "time_s": 0.0, "examples": []}
    cfs = {"jobs": 0, "paths": 0, "vcs": 0, "unsat": 0, "unknown": 0, "violations_on_real_code": 0}
    for r in results:
        spec = r["spec"]
        cf = r.get("counterfactual")
        if cf:
            cfs["jobs"] += 1
            for k2 in ("paths", "vcs", "unsat", "unknown", "violations_on_real_code"):
                cfs[k2] += cf.get(k2, 0)
        if spec.get("twin"):
            twins_run += 1
            if r["violations"]:
                twins_refuted += 1
            continue
        for k in tot:
            tot[k] += r.get(k, 0)
        solver_s += r["solver_s"]
        funcs.update(r["funcs"])
        truncated += bool(r["truncated"])
        killed += bool(r.get("killed"))
        for k2, v2 in (r.get("cvc5") or {}).items():
            if k2 == "examples":
                cvc["examples"] += v2[:2]
            else:
                cvc[k2] += v2
        for k, v in r["vc_names"].items():
            vc_names[k] = vc_names.get(k, 0) + v
        if r["paths"] >= 2 or r["queries"] > 0:
            nontrivial.add(json.dumps(spec, sort_keys=True, default=str))
        if len(samples) < 12 and (r["paths"] >= 2 or len(samples) < 3):
            samples.append({"job": r["job"], "spec": {k: v for k, v in spec.items() if k not in ("id",)},
                            "paths": r["paths"], "vcs": r["vcs"], "unsat": r["unsat"], "unknown": r["unknown"],
                            "solver_s": r["solver_s"]})
        for v in r["violations"]:
            fid = v.get("attributed")
            if fid and not any(f["id"] == fid and f.get("status") == "known" and PROP in f.get("properties", [])
                               for f in known.get("findings", [])):
                fid = None            # only findings listed as known for this property may absorb a witness
            if hasattr(prop, "attribute"):
                try:
                    fid = prop.attribute(spec, v, known)
                except Exception as e:  # noqa
                    fid = None
                    v["attribution_error"] = str(e)
            if fid:
                known_hit[fid] = known_hit.get(fid, 0) + 1
            else:
                n_viol += 1
                path = write_replay(PROP, r, v)
                ln = f"VIOLATION property={PROP} replay={path}"
                if ln not in viol_lines:
                    viol_lines.append(ln)
                print(f"  violated: job={r['job']} vc={v['vc']} why={v.get('why')} inputs={v.get('inputs_rational')}")
    for f in known.get("findings", []):
        if f.get("status") == "known" and PROP in f.get("properties", []) and known_hit.get(f["id"]):
            known_lines.append(f"KNOWN-FINDING: property={PROP} {f['id']}: {f['what']} ({known_hit[f['id']]} witnesses this run)")
    harness_error = None
    if errors:
        harness_error = f"{len(errors)} job(s) crashed: " + errors[0]["error"][:800]
    elif twins_run and twins_refuted < twins_run:
        harness_error = f"vacuity guard: {twins_run - twins_refuted} reachability twin(s) were NOT refuted"
    elif cvc["disagree"]:
        harness_error = f"solver disagreement: z3 and cvc5 decided {cvc['disagree']} sampled verification condition(s) differently: {cvc['examples'][:2]}"
    elif not results:
        harness_error = "no job was run"
    elif tot["paths"] == 0:
        harness_error = "empty exploration"
    wall = round(time.time() - t0, 2)
    inconclusive = tot["unknown"] + tot["sat_unreproduced"] + tot["unsupported"] + truncated
    ev = {
        "property_id": PROP, "tier": tier, "seed": int(seed), "level": "other",
        "coverage": {
            "explanation": getattr(prop, "LEVEL_TEXT", "") or
            "bounded symbolic execution of the real smoothmath code on real-valued proxies; per path an SMT "
            "verification condition (z3) decides the property for every value of the symbolic inputs",
            "evaluations": len(results) - twins_run,
            "distinct_nontrivial": len(nontrivial),
            "rule": getattr(prop, "RULE", "one evaluation = one job (tree/family item x route) explored over all its paths; "
                            "non-trivial = the exploration forked (>=2 feasible paths) or needed >=1 solver query; distinct by job spec"),
            "samples": samples,
            "jobs_total": len(jobs), "jobs_skipped_time_budget": skipped,
            "paths": tot["paths"], "obligations": tot["vcs"], "discharged": tot["unsat"],
            "decided_without_final_query": tot["numeric_vcs"],
            "decided_without_final_query_note": "obligations whose verdict needs no final solver query: variable-free (ground) values compared "
            "numerically at 50 digits, and per-path structural facts (e.g. the outcome kind of a solver-feasible path)",
            "unknown": tot["unknown"], "sat_replayed": tot["sat_replayed"], "sat_unreproduced": tot["sat_unreproduced"],
            "unsupported_paths": tot["unsupported"], "truncated_jobs": truncated, "killed_jobs": killed, "unknown_forks": tot["unknown_forks"],
            "inconclusive_total": inconclusive, "queries_skipped_job_time_budget": tot["budget_skipped"],
            "job_time_budget_s": opts.get("job_budget_s"),
            "solver_queries": tot["queries"], "solver_time_s": round(solver_s, 2),
            "solver": "z3 " + _z3_version(), "per_query_timeout_ms": opts.get("timeout_ms"),
            "max_paths_per_job": opts.get("max_paths"),
            "obligation_kinds": vc_names,
            "functions_encoded": sorted(funcs),
            "bounds": getattr(prop, "BOUNDS", {}).get(tier, getattr(prop, "BOUNDS", {})),
            "cvc5_crosschecked": cvc["checked"], "cvc5_agree": cvc["agree"], "cvc5_inconclusive": cvc["unknown"], "cvc5_disagree": cvc["disagree"],
            "cvc5_time_s": round(cvc["time_s"], 1), "cvc5_disagreements": cvc["examples"][:5],
            "twins_run": twins_run, "twins_refuted": twins_refuted,
            "traces_validated_against_impl": (opts.get("_ground") or {}).get("passed", 0),
            "encoding_validation": {"what": "the repository's own test-suite executed under the engine in ground mode (all constants exact rational proxies, "
                                            "elementary functions as axiomatised terms, comparisons decided by z3); must pass", **(opts.get("_ground") or {})},
            "known_findings_hit": known_hit,
            "known_finding_counterfactual_reexploration": {**cfs, "note": "trees with a witness attributed to a known finding are explored again with exactly that "
                                                                             "cause neutralised; all obligations there must be discharged (rest of the input space stays verified)"},
            "axiom_schemas": _schemas(),
            "harness_error": harness_error,
        },
        "assumptions": getattr(prop, "ASSUMPTIONS", []) + COMMON_ASSUMPTIONS,
        "wall_s": wall, "violations": n_viol,
    }
    os.makedirs(EVIDENCE_DIR, exist_ok=True)
    json.dump(ev, open(os.path.join(EVIDENCE_DIR, f"{PROP}.json"), "w"), indent=1, default=str)
    print(f"[{PROP} {tier}] jobs={len(results)}/{len(jobs)} paths={tot['paths']} VCs={tot['vcs']} unsat={tot['unsat']} "
          f"unknown={tot['unknown']} unreproduced={tot['sat_unreproduced']} unsupported={tot['unsupported']} "
          f"violations={n_viol} known={sum(known_hit.values())} twins={twins_refuted}/{twins_run} "
          f"queries={tot['queries']} solver={solver_s:.1f}s wall={wall}s")
    for r in results:
        if r.get("unreproduced_samples") and not r["spec"].get("twin"):
            print(f"  inconclusive (unreproduced model): job={r['job']} {json.dumps(r['unreproduced_samples'][0], default=str)[:300]}")
    for ln in known_lines:
        print(ln)
    g = opts.get("_ground") or {}
    if g.get("ran") and g.get("exit") != 0:
        print(f"  note: encoding validation (repo tests under the engine, ground mode) did not pass cleanly: exit={g.get('exit')} passed={g.get('passed')}")
    if harness_error:
        print("HARNESS-ERROR: " + harness_error)
        return EXIT_HARNESS
    for ln in viol_lines:
        print(ln)
    return 1 if viol_lines else 0


COMMON_ASSUMPTIONS = [
    "Python numeric semantics as tabulated in DESIGN.md 2.3 (proxies model +,-,*,/,**,sum,abs,round,is_integer,"
    " math.sqrt/cbrt/log/sin/cos with their ValueError/ZeroDivisionError/complex behaviour)",
    "reals stand for doubles: 'equal up to rounding' is decided as exact equality of the real functions computed; "
    "rounding magnitude, overflow and underflow are outside the claim",
    "the axiom schemas listed under coverage.axiom_schemas are true facts of real analysis (validated numerically at self-test)",
    "z3 is correct; mpmath (50 digits) for enclosures of ground function values and for judging replays",
    "tree shapes, arities, parameter sets and history lengths are bounded as listed under coverage.bounds",
]


def _z3_version():
    try:
        import z3
        return z3.get_version_string()
    except Exception:  # noqa
        return "?"


def _schemas():
    try:
        from symreal import core as sx
        return sx.AXIOM_SCHEMAS
    except Exception:  # noqa
        return []
