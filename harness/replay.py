"""./check <Cnn> --replay <file>: re-run a recorded counterexample on the real, un-instrumented code."""
import json
import sys

from harness import run


def main(prop, path):
    rec = json.load(open(path))
    outs = run.run_concrete(rec["spec"], rec["inputs"])
    print(f"property {rec['property']}  vc {rec['vc']}")
    print("spec:    ", json.dumps(rec["spec"]))
    print("inputs:  ", json.dumps(rec["inputs"]), rec.get("inputs_rational"))
    print("recorded:", json.dumps(rec.get("observed")))
    print("now:     ", json.dumps(outs))
    print("why:     ", rec.get("why"))
    same = [(o.get("kind"), o.get("value")) for o in outs] == [(o.get("kind"), o.get("value")) for o in rec.get("observed") or []]
    if same:
        print(f"REPRODUCED: the recorded behaviour is still observed -> VIOLATION property={rec['property']} replay={path}")
        return 1
    print("NOT REPRODUCED: the real code now behaves differently from the recording")
    return 0
