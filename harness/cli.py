import os
import sys

VERIF = os.path.dirname(os.path.dirname(os.path.abspath(__file__)))
sys.path.insert(0, VERIF)


def main(argv):
    if len(argv) < 1:
        print("usage: check <Cnn> [quick|thorough] | check <Cnn> --replay <file>")
        return 3
    prop = argv[0]
    if prop == "selftest":
        import subprocess
        rc1 = subprocess.call([sys.executable, os.path.join(VERIF, "selftest", "ground_tests.py")])
        rc2 = subprocess.call([sys.executable, os.path.join(VERIF, "selftest", "axioms.py")])
        print("SELFTEST", "ok" if rc1 == 0 and rc2 == 0 else "FAILED")
        return 0 if rc1 == 0 and rc2 == 0 else 3
    if "--replay" in argv:
        from harness import replay
        return replay.main(prop, argv[argv.index("--replay") + 1])
    tier = os.environ.get("VERIF_TIER") or "quick"
    for a in argv[1:]:
        if a in ("quick", "thorough"):
            tier = a
    only = argv[argv.index("--only") + 1] if "--only" in argv else None
    seed = int(os.environ.get("VERIF_SEED", "0") or 0)
    from harness import run
    t0 = __import__("time").time()
    try:
        return run.main(prop, tier, seed, only=only)
    except BaseException as e:  # noqa  (import failure of the code under test, bug in a property module, ...): a harness error, never a verdict
        import json
        import traceback
        msg = f"{type(e).__name__}: {e}"
        print("HARNESS-ERROR: " + msg)
        traceback.print_exc()
        os.makedirs(run.EVIDENCE_DIR, exist_ok=True)
        json.dump({"property_id": prop.upper(), "tier": tier, "seed": seed, "level": "other",
                   "coverage": {"explanation": "the check could not run: " + msg, "evaluations": 0, "distinct_nontrivial": 0, "harness_error": msg, "samples": []},
                   "assumptions": [], "wall_s": round(__import__("time").time() - t0, 2), "violations": 0},
                  open(os.path.join(run.EVIDENCE_DIR, f"{prop.upper()}.json"), "w"), indent=1)
        return 3


if __name__ == "__main__":
    sys.exit(main(sys.argv[1:]))
